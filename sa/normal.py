"""Normal form of the analysed source: what makes the rules insensitive to behaviour-preserving rewrites.

Every module of the repository is brought to a normal form right after parsing and before any rule looks at it:

  1. helper inlining      a private function that the reference inventory (data/reference_shape.json) does not know
                          and that has a simple shape (no yield/nested def/varargs; returns only at the end, or a pure
                          tree of returns) is inlined at its call sites inside the module ("extract helper" undone);
  2. statement idioms     `X = []` + append/extend loop  -> `X = [comprehension]` (dict/set alike);
                          `X.extend(<generator>)` as a statement -> the explicit append loop;
                          search loop `for ..: if C: return True` + `return False` -> `return any(C for ..)` (and all);
                          a local defined once and used once in the very next statement is substituted into it;
  3. local names          the locals (parameters, loop and comprehension targets, nested function names) of every
                          function that the reference knows are renamed to the reference's names, matched by the shape
                          of their bindings.  The renaming is an injective, capture-avoiding map on resolved bindings,
                          so the analysed function is alpha-equivalent to the one in the file whatever the matching
                          decides: a wrong match can only make a rule fire, never hide a violation.

Nothing here looks at behaviour-relevant content with a view to accept or reject it: rules still decide on the
normalised tree.  Line numbers of rewritten statements are those of the statement they came from; `_ord` gives the
statement/expression order after normalisation (use core.order(), not lineno, to compare positions).
"""
import ast
import copy
import json
import os

DATA = os.path.join(os.path.dirname(os.path.abspath(__file__)), "data", "reference_shape.json")
_REF = None


def reference():
    global _REF
    if _REF is None:
        if os.environ.get("VERIF_NO_REFERENCE") or not os.path.exists(DATA):
            _REF = {"inventory": {}, "roles": {}}
        else:
            with open(DATA) as f:
                _REF = json.load(f)
    return _REF


FUNC = (ast.FunctionDef, ast.AsyncFunctionDef)
SCOPES = FUNC + (ast.Lambda, ast.ListComp, ast.SetComp, ast.DictComp, ast.GeneratorExp)


def walk_shallow(node):
    """Walk without entering nested function definitions / lambdas / classes (the node itself is yielded)."""
    stack = [node]
    while stack:
        n = stack.pop()
        yield n
        for c in ast.iter_child_nodes(n):
            if isinstance(c, FUNC + (ast.Lambda, ast.ClassDef)):
                yield c
                continue
            stack.append(c)


def blocks_of(node):
    """All statement lists under node (including nested functions)."""
    for n in ast.walk(node):
        for fld in ("body", "orelse", "finalbody"):
            b = getattr(n, fld, None)
            if isinstance(b, list) and b and isinstance(b[0], ast.stmt):
                yield n, fld, b
        # except handlers and match cases are nodes with their own body, reached by ast.walk


def loc(new, old):
    for n in ast.walk(new):
        if not hasattr(n, "lineno") or getattr(n, "_synth", True):
            if isinstance(n, (ast.expr, ast.stmt, ast.arg, ast.keyword, ast.excepthandler)):
                n.lineno = getattr(old, "lineno", 1)
                n.col_offset = getattr(old, "col_offset", 0)
                n.end_lineno = getattr(old, "end_lineno", n.lineno)
                n.end_col_offset = getattr(old, "end_col_offset", 0)
    return new


def mark_real(tree):
    for n in ast.walk(tree):
        n._synth = False


# ------------------------------------------------------------------------------------------------ 1. inlining
def _strip_doc(body):
    if body and isinstance(body[0], ast.Expr) and isinstance(body[0].value, ast.Constant) and isinstance(body[0].value.value, str):
        return body[1:]
    return body


def _return_tree(body):
    """Expression equivalent to a body made only of returns and if/else over returns, else None."""
    body = _strip_doc(body)
    if not body:
        return None
    st = body[0]
    if isinstance(st, ast.Return) and len(body) >= 1:
        return st.value if st.value is not None else ast.Constant(None)
    if isinstance(st, ast.If):
        a = _return_tree(st.body)
        if a is None:
            return None
        b = _return_tree(st.orelse) if st.orelse else _return_tree(body[1:])
        if b is None:
            return None
        return ast.IfExp(test=st.test, body=a, orelse=b)
    return None


class Helper:
    def __init__(self, fn, cls, kind, expr=None, prefix=None):
        self.fn, self.cls, self.kind, self.expr = fn, cls, kind, expr     # kind: "expr" (a pure tree of returns) | "stmts" (statements, then `expr` (or nothing) is returned)
        self.prefix = prefix or []

    @property
    def params(self):
        a = self.fn.args
        return [x.arg for x in a.posonlyargs + a.args]


def _without_early_returns(stmts):
    """The statement list of a procedure with its bare `return`s structured away (None when that needs more than moving the rest of a block
    under the else of an `if .. return`)."""
    out = []
    for k, st in enumerate(stmts):
        if isinstance(st, ast.Return):
            if st.value is not None:
                return None
            return out or [ast.copy_location(ast.Pass(), st)]
        if isinstance(st, ast.If) and not st.orelse and st.body and isinstance(st.body[-1], ast.Return) and st.body[-1].value is None \
                and not any(isinstance(n, ast.Return) for b in st.body[:-1] for n in walk_shallow(b)):
            rest = _without_early_returns(stmts[k + 1:])
            if rest is None:
                return None
            new = ast.copy_location(ast.If(test=st.test, body=st.body[:-1] or [ast.copy_location(ast.Pass(), st)], orelse=rest), st)
            return out + [new]
        if any(isinstance(n, ast.Return) for n in walk_shallow(st)) and not isinstance(st, FUNC + (ast.ClassDef,)):
            return None
        out.append(st)
    return out


def plan_helper(fn, cls):
    a = fn.args
    if a.vararg or a.kwarg or a.kwonlyargs:
        return None
    static = False
    for d in fn.decorator_list:
        if isinstance(d, ast.Name) and d.id in ("staticmethod", "classmethod"):
            static = d.id
        else:
            return None
    if isinstance(fn, ast.AsyncFunctionDef):
        return None
    for n in walk_shallow(fn):
        if n is fn:
            continue
        if isinstance(n, (ast.Yield, ast.YieldFrom, ast.Await, ast.Global, ast.Nonlocal, ast.ClassDef)):
            return None
    for n in ast.walk(fn):
        if n is fn:
            continue
        if isinstance(n, (ast.Global, ast.Nonlocal)):
            return None
        if isinstance(n, ast.Call) and isinstance(n.func, ast.Name) and n.func.id in ("locals", "vars", "super", "eval", "exec"):
            return None
        if isinstance(n, ast.Call) and ((isinstance(n.func, ast.Name) and n.func.id == fn.name) or
                                        (isinstance(n.func, ast.Attribute) and n.func.attr == fn.name)):
            return None     # (possibly) recursive
    body = _strip_doc(fn.body)
    if not body:
        return None
    expr = _return_tree(body)
    h = None
    if expr is not None:
        h = Helper(fn, cls, "expr", expr)
    else:
        rets = [n for n in walk_shallow(fn) if isinstance(n, ast.Return)]
        if not rets:
            h = Helper(fn, cls, "stmts", None, body)
        elif all(r.value is None for r in rets) and _without_early_returns(copy.deepcopy(body)) is not None:
            # a procedure that leaves early (`if C: return`): the rest moves under the opposite branch
            h = Helper(fn, cls, "stmts", None, _without_early_returns(copy.deepcopy(body)))
        else:
            # statements without any return, followed by a pure tree of returns
            for k in range(1, len(body)):
                tail = _return_tree(body[k:])
                if tail is not None and not any(isinstance(n, ast.Return) for b in body[:k] if not isinstance(b, FUNC + (ast.ClassDef,)) for n in walk_shallow(b)):
                    h = Helper(fn, cls, "stmts", tail, body[:k])
                    break
    if h is not None:
        h.static = static
    return h


def _dead_after(fn, st, name):
    """The caller's variable `name` is not read after statement st before it is bound again: st is followed, in its own block and in the
    blocks around it up to the nearest loop that rebinds `name` (or the function), by no load of `name`."""
    parents = {}
    for n in ast.walk(fn):
        for c in ast.iter_child_nodes(n):
            parents[c] = n
    cur = st
    while cur is not None and cur is not fn:
        par = parents.get(cur)
        if par is None:
            return False
        for fld in ("body", "orelse", "finalbody"):
            block = getattr(par, fld, None)
            if isinstance(block, list) and cur in block:
                for later in block[block.index(cur) + 1:]:
                    if any(isinstance(n, ast.Name) and n.id == name and isinstance(n.ctx, ast.Load) for n in ast.walk(later)):
                        return False
        if isinstance(par, ast.For) and any(isinstance(n, ast.Name) and n.id == name for n in ast.walk(par.target)):
            return True     # every iteration starts by binding the name again
        if isinstance(par, (ast.While, ast.For)):
            return False    # a loop that does not rebind it: the next iteration may read it
        cur = par
    return True


class _Subst(ast.NodeTransformer):
    def __init__(self, mapping):
        self.mapping = mapping      # name -> expr node (Load) or str (rename)

    def visit_Name(self, n):
        m = self.mapping.get(n.id)
        if m is None:
            return n
        if isinstance(m, str):
            return ast.copy_location(ast.Name(id=m, ctx=n.ctx), n)
        if isinstance(n.ctx, ast.Load):
            return copy.deepcopy(m)
        return n

    def visit_arg(self, n):
        m = self.mapping.get(n.arg)
        if isinstance(m, str):
            n.arg = m
        return n


def _simple_arg(e):
    while isinstance(e, ast.Attribute):
        e = e.value
    return isinstance(e, (ast.Name, ast.Constant))


def _stored_names(node):
    out = set()
    for n in ast.walk(node):
        if isinstance(n, ast.Name) and isinstance(n.ctx, (ast.Store, ast.Del)):
            out.add(n.id)
        elif isinstance(n, ast.ExceptHandler) and n.name:
            out.add(n.name)
        elif isinstance(n, FUNC):
            out.add(n.name)
    return out


def _bind_args(h, call, receiver):
    """param -> arg expression, or None when the call does not fit the simple positional/keyword protocol."""
    params = h.params
    a = h.fn.args
    defaults = dict(zip(reversed(params), reversed(a.defaults)))
    bound = {}
    pos = list(call.args)
    if any(isinstance(x, ast.Starred) for x in pos) or any(k.arg is None for k in call.keywords):
        return None
    if receiver is not None:
        pos = [receiver] + pos
    if len(pos) > len(params):
        return None
    for p, x in zip(params, pos):
        bound[p] = x
    for k in call.keywords:
        if k.arg not in params or k.arg in bound:
            return None
        bound[k.arg] = k.value
    for p in params:
        if p not in bound:
            if p not in defaults:
                return None
            bound[p] = defaults[p]
    return bound


class Inliner:
    def __init__(self, tree, modname, known):
        self.tree, self.modname, self.known = tree, modname, known
        self.helpers = {}        # ("", name) | (Class, name) -> Helper
        self.count = 0
        self.inlined = []
        self.removed = []

    def collect(self):
        for n in self.tree.body:
            if isinstance(n, FUNC) and f"{self.modname}.{n.name}" not in self.known:
                h = plan_helper(n, None)
                if h:
                    self.helpers[("", n.name)] = h
            elif isinstance(n, ast.ClassDef):
                for m in n.body:
                    if isinstance(m, FUNC) and f"{self.modname}.{n.name}.{m.name}" not in self.known and not (m.name.startswith("__") and m.name.endswith("__")) \
                            and not m.name.startswith("visit_"):
                        h = plan_helper(m, n.name)
                        if h:
                            self.helpers[(n.name, m.name)] = h

    def lookup(self, call, cls):
        """(helper, receiver expr or None) for a call node, or None."""
        f = call.func
        if isinstance(f, ast.Name):
            h = self.helpers.get(("", f.id))
            if h:
                return h, None
        elif isinstance(f, ast.Attribute):
            if isinstance(f.value, ast.Name):
                if cls is not None and f.value.id in ("self", "cls"):
                    h = self.helpers.get((cls, f.attr))
                    if h:
                        if h.static == "staticmethod":
                            return h, None
                        return h, f.value
                h = self.helpers.get((f.value.id, f.attr))
                if h and h.static:
                    return h, (None if h.static == "staticmethod" else f.value)
            # <object>.<new method>(...): a method name that exactly one class of the module defines (and the reference does not know)
            owners = [k for k in self.helpers if k[0] and k[1] == f.attr]
            if len(owners) == 1 and _simple_arg(f.value):
                h = self.helpers[owners[0]]
                if not h.static:
                    return h, f.value
                if h.static == "staticmethod" and isinstance(f.value, ast.Name):
                    return h, None
        return None

    def run(self):
        self.collect()
        if not self.helpers:
            return
        # Class.helper(obj, ..) on a new private method that only this class defines is obj.helper(..)
        for n in ast.walk(self.tree):
            if isinstance(n, ast.Call) and isinstance(n.func, ast.Attribute) and isinstance(n.func.value, ast.Name) and n.args and not isinstance(n.args[0], ast.Starred):
                h = self.helpers.get((n.func.value.id, n.func.attr))
                if h is not None and not h.static and _simple_arg(n.args[0]) and len([k for k in self.helpers if k[1] == n.func.attr]) == 1:
                    n.func = ast.copy_location(ast.Attribute(value=n.args[0], attr=n.func.attr, ctx=ast.Load()), n.func)
                    n.args = n.args[1:]
        for _ in range(4):
            before = self.count
            for n in self.tree.body:
                if isinstance(n, FUNC):
                    self.in_function(n, None)
                elif isinstance(n, ast.ClassDef):
                    for m in n.body:
                        if isinstance(m, FUNC):
                            self.in_function(m, n.name)
            if self.count == before:
                break
        # a helper that is no longer referred to anywhere has been folded into its users completely: it is not part of the program any more
        for (cname, name), h in list(self.helpers.items()):
            refs = 0
            for n in ast.walk(self.tree):
                if n is h.fn:
                    continue
                if isinstance(n, ast.Name) and n.id == name and not cname:
                    refs += 1
                elif isinstance(n, ast.Attribute) and n.attr == name:
                    refs += 1
                elif isinstance(n, ast.Constant) and n.value == name:
                    refs += 1
            inside = sum(1 for n in ast.walk(h.fn) if (isinstance(n, ast.Name) and n.id == name) or (isinstance(n, ast.Attribute) and n.attr == name))
            if refs - inside <= 0 and any(hn == name for hn, _ in self.inlined):
                holder = self.tree.body if not cname else next(c.body for c in self.tree.body if isinstance(c, ast.ClassDef) and c.name == cname)
                if h.fn in holder:
                    holder.remove(h.fn)
                    self.removed.append(name)
                    if not holder:
                        holder.append(ast.Pass())

    def in_function(self, fn, cls):
        used = {n.id for n in ast.walk(fn) if isinstance(n, ast.Name)} | {a.arg for a in ast.walk(fn) if isinstance(a, ast.arg)}
        for holder, fld, block in list(blocks_of(fn)):
            i = 0
            while i < len(block):
                st = block[i]
                rep = self.statement(st, fn, cls, used)
                if rep is not None:
                    block[i:i + 1] = rep
                    i += len(rep)
                    continue
                i += 1
        # expression helpers anywhere
        outer = self

        class E(ast.NodeTransformer):
            def visit_Call(self, c):
                self.generic_visit(c)
                got = outer.lookup(c, cls)
                if got and got[0].kind == "expr" and got[0].fn is not fn:
                    h, recv = got
                    bound = _bind_args(h, c, recv)
                    if bound is not None:
                        outer.count += 1
                        outer.inlined.append((h.fn.name, fn.name))
                        return loc(_Subst({p: x for p, x in bound.items()}).visit(copy.deepcopy(h.expr)), c)
                return c
        E().visit(fn)

    def _site(self, st, cls, fn):
        """The call to a statement-shaped helper that this statement is built around: its value, or a direct argument of its value."""
        if not isinstance(st, (ast.Expr, ast.Assign, ast.AnnAssign, ast.AugAssign, ast.Return)):
            return None
        top = st.value
        if not isinstance(top, ast.Call):
            return None
        cands = [top] + [a for a in top.args if isinstance(a, ast.Call)] + [k.value for k in top.keywords if isinstance(k.value, ast.Call)]
        for call in cands:
            got = self.lookup(call, cls)
            if got and got[0].kind == "stmts" and got[0].fn is not fn:
                return call, got
        return None

    def statement(self, st, fn, cls, used):
        site = self._site(st, cls, fn)
        if site is None:
            return None
        call, (h, recv) = site
        bound = _bind_args(h, call, recv)
        if bound is None:
            return None
        body = copy.deepcopy(h.prefix)
        retexpr = copy.deepcopy(h.expr) if h.expr is not None else None
        stored = set()
        for b in body:
            stored |= _stored_names(b)
        returns_name = retexpr.id if isinstance(retexpr, ast.Name) else None
        target_names = set()
        if isinstance(st, ast.Assign) and call is st.value:
            for t in st.targets:
                if isinstance(t, ast.Name):
                    target_names.add(t.id)
        all_targets = set()
        if isinstance(st, ast.Assign) and call is st.value:
            for t in st.targets:
                for e_ in ast.walk(t):
                    if isinstance(e_, ast.Name) and isinstance(e_.ctx, ast.Store):
                        all_targets.add(e_.id)      # overwritten by this very statement: the old value is dead once the call starts
        mapping, pre = {}, []
        for p, x in bound.items():
            if p not in stored and _simple_arg(x):
                mapping[p] = x
            elif isinstance(x, ast.Name) and x.id == p and (call is st.value and (isinstance(st, ast.Return) or (p in target_names and returns_name == p))):
                pass        # `p = helper(.., p, ..)` with a helper that updates and returns its parameter p: the caller's p is that variable
            elif isinstance(x, ast.Name) and p in stored and (_dead_after(fn, st, x.id) or x.id in all_targets):
                mapping[p] = x.id       # the helper rebinds its parameter, and the caller never reads its own variable again: one variable
            else:
                new = p if p not in used else f"{p}__{h.fn.name.strip('_')}"
                mapping[p] = new
                pre.append(ast.Assign(targets=[ast.Name(id=new, ctx=ast.Store())], value=copy.deepcopy(x)))
                used.add(new)
        for v in sorted(stored):
            if v in mapping or v in bound:
                continue
            if v in used and v not in target_names:
                mapping[v] = f"{v}__{h.fn.name.strip('_')}"
            used.add(mapping.get(v, v))
        sub = _Subst(mapping)
        body = [sub.visit(b) for b in body]
        ret = sub.visit(retexpr) if retexpr is not None else ast.Constant(None)
        out = pre + body
        if call is not st.value:
            _replace_node(st, call, ret)
            out.append(st)
        elif isinstance(st, ast.Expr):
            if not (isinstance(ret, (ast.Constant, ast.Name))):
                out.append(ast.Expr(value=ret))
        else:
            if isinstance(st, ast.Assign) and len(st.targets) == 1 and isinstance(st.targets[0], ast.Name) and isinstance(ret, ast.Name) and ret.id == st.targets[0].id:
                pass        # `x = helper()` whose helper ends in `return x` after renaming: nothing left to assign
            else:
                st2 = copy.copy(st)
                st2.value = ret
                out.append(st2)
        self.count += 1
        self.inlined.append((h.fn.name, fn.name))
        return [loc(o, st) for o in out] or [loc(ast.Pass(), st)]


# ------------------------------------------------------------------------------------------------ 1a. library spellings
def library_spellings(tree, stats):
    """Expression-level spellings that say the same thing: list(map(f, xs)) is [f(x) for x in xs];
    list(chain.from_iterable(<comprehension of E>)) is [t for .. for t in E]; s.startswith((a, b)) is s.startswith(a) or s.startswith(b);
    isinstance(x, (A, B)) is isinstance(x, A) or isinstance(x, B)."""
    count = {}

    def bump(k):
        count[k] = count.get(k, 0) + 1
    # attributes that hold a collections.Counter (every assignment to them in the module is `Counter(..)`)
    stores = {}
    for n in ast.walk(tree):
        if isinstance(n, ast.Assign):
            for t in n.targets:
                if isinstance(t, ast.Attribute):
                    stores.setdefault(t.attr, []).append(isinstance(n.value, ast.Call) and ast.unparse(n.value.func) in ("Counter", "collections.Counter"))
    counters = {a for a, v in stores.items() if all(v)}

    class R(ast.NodeTransformer):
        def visit_Call(self, c):
            self.generic_visit(c)
            f = c.func
            if isinstance(f, ast.Name) and f.id == "zip" and len(c.args) >= 2 and not c.keywords and not any(isinstance(a, ast.Starred) for a in c.args):
                # zip over one re-iterable container Y, its images under map(F, Y) and constants repeat(k): ((.., .., ..) for _z in Y)
                base = None
                items = []
                zvar = lambda: ast.Name(id="_z", ctx=ast.Load())
                for a in c.args:
                    fa = ast.unparse(a.func) if isinstance(a, ast.Call) else None
                    if fa in ("repeat", "itertools.repeat") and len(a.args) == 1 and not a.keywords and _simple_arg(a.args[0]):
                        items.append(a.args[0])
                        continue
                    if fa == "map" and len(a.args) == 2 and not a.keywords:
                        g = _map_as_generator(a)
                        y = a.args[1]
                        if g is None:
                            items = None
                            break
                        e = _Subst({"_m": zvar()}).visit(copy.deepcopy(g.elt))
                    else:
                        y, e = a, zvar()
                    if not (isinstance(y, ast.Name) or isinstance(y, ast.Attribute) and _simple_arg(y)) or base is not None and ast.unparse(y) != base:
                        items = None
                        break
                    base = ast.unparse(y)
                    base_node = y
                    items.append(e)
                if items and base is not None:
                    bump("zip(Y, map(F, Y), repeat(k))")
                    return loc(ast.GeneratorExp(elt=ast.Tuple(elts=items, ctx=ast.Load()), generators=[ast.comprehension(
                        target=ast.Name(id="_z", ctx=ast.Store()), iter=copy.deepcopy(base_node), ifs=[], is_async=0)]), c)
            if isinstance(f, ast.Name) and f.id == "list" and len(c.args) == 1 and not c.keywords and isinstance(c.args[0], ast.GeneratorExp):
                bump("list(generator)")
                return loc(ast.ListComp(elt=c.args[0].elt, generators=c.args[0].generators), c)
            if isinstance(f, ast.Name) and f.id == "list" and len(c.args) == 1 and not c.keywords and isinstance(c.args[0], ast.UnaryOp) \
                    and isinstance(c.args[0].op, ast.UAdd) and isinstance(c.args[0].operand, ast.Attribute) and c.args[0].operand.attr in counters:
                # +counter keeps the entries with a positive count, in order
                bump("list(+counter)")
                return loc(ast.ListComp(elt=ast.Name(id="_k", ctx=ast.Load()), generators=[ast.comprehension(
                    target=ast.Tuple(elts=[ast.Name(id="_k", ctx=ast.Store()), ast.Name(id="_c", ctx=ast.Store())], ctx=ast.Store()),
                    iter=ast.Call(func=ast.Attribute(value=c.args[0].operand, attr="items", ctx=ast.Load()), args=[], keywords=[]),
                    ifs=[ast.Compare(left=ast.Name(id="_c", ctx=ast.Load()), ops=[ast.Gt()], comparators=[ast.Constant(value=0)])], is_async=0)]), c)
            if isinstance(f, ast.Name) and f.id == "list" and len(c.args) == 1 and not c.keywords and isinstance(c.args[0], ast.Call):
                inner = c.args[0]
                if isinstance(inner.func, ast.Name) and inner.func.id == "map" and len(inner.args) == 2 and not inner.keywords:
                    bump("list(map)")
                    return loc(ast.ListComp(elt=ast.Call(func=inner.args[0], args=[ast.Name(id="_m", ctx=ast.Load())], keywords=[]),
                                            generators=[ast.comprehension(target=ast.Name(id="_m", ctx=ast.Store()), iter=inner.args[1], ifs=[], is_async=0)]), c)
                d = ast.unparse(inner.func)
                if d in ("chain.from_iterable", "itertools.chain.from_iterable") and len(inner.args) == 1 and not inner.keywords:
                    src = inner.args[0]
                    bump("list(chain.from_iterable)")
                    if isinstance(src, (ast.GeneratorExp, ast.ListComp)):
                        gens = list(src.generators) + [ast.comprehension(target=ast.Name(id="_t", ctx=ast.Store()), iter=src.elt, ifs=[], is_async=0)]
                    else:
                        gens = [ast.comprehension(target=ast.Name(id="_s", ctx=ast.Store()), iter=src, ifs=[], is_async=0),
                                ast.comprehension(target=ast.Name(id="_t", ctx=ast.Store()), iter=ast.Name(id="_s", ctx=ast.Load()), ifs=[], is_async=0)]
                    return loc(ast.ListComp(elt=ast.Name(id="_t", ctx=ast.Load()), generators=gens), c)
            if isinstance(f, ast.Name) and f.id in ("any", "all", "sum", "min", "max", "sorted", "tuple", "set", "frozenset") and len(c.args) >= 1 \
                    and isinstance(c.args[0], ast.Call) and isinstance(c.args[0].func, ast.Name) and c.args[0].func.id == "map" and len(c.args[0].args) == 2 and not c.args[0].keywords:
                g = _map_as_generator(c.args[0])
                if g is not None:
                    bump("map(f, xs)")
                    c.args[0] = loc(g, c.args[0])
            if isinstance(f, ast.Name) and f.id == "all" and len(c.args) == 1 and not c.keywords and isinstance(c.args[0], (ast.GeneratorExp, ast.ListComp)) \
                    and isinstance(c.args[0].elt, ast.UnaryOp) and isinstance(c.args[0].elt.op, ast.Not):
                bump("all(not ..)")
                inner = loc(ast.GeneratorExp(elt=c.args[0].elt.operand, generators=c.args[0].generators), c.args[0])
                return loc(ast.UnaryOp(op=ast.Not(), operand=ast.Call(func=ast.Name(id="any", ctx=ast.Load()), args=[inner], keywords=[])), c)
            if isinstance(f, ast.Lambda) and not c.keywords and not f.args.defaults and not f.args.kwonlyargs and not f.args.vararg and not f.args.kwarg \
                    and len(f.args.args) + len(f.args.posonlyargs) == len(c.args) and all(_simple_arg(a) for a in c.args):
                bump("(lambda ..)(..)")
                params = [a.arg for a in f.args.posonlyargs + f.args.args]
                return loc(_Subst(dict(zip(params, c.args))).visit(copy.deepcopy(f.body)), c)
            if isinstance(f, ast.Name) and f.id == "dict" and not c.args and all(k.arg for k in c.keywords):
                bump("dict(k=v)")
                return loc(ast.Dict(keys=[ast.Constant(value=k.arg) for k in c.keywords], values=[k.value for k in c.keywords]), c)
            if isinstance(f, ast.Attribute) and f.attr == "fromkeys" and isinstance(f.value, ast.Name) and f.value.id == "dict" and len(c.args) == 2 and not c.keywords \
                    and isinstance(c.args[1], ast.Constant):
                bump("dict.fromkeys")
                return loc(ast.DictComp(key=ast.Name(id="_k", ctx=ast.Load()), value=c.args[1],
                                        generators=[ast.comprehension(target=ast.Name(id="_k", ctx=ast.Store()), iter=c.args[0], ifs=[], is_async=0)]), c)
            if isinstance(f, ast.Attribute) and f.attr == "get" and len(c.args) == 2 and not c.keywords and isinstance(c.args[1], ast.Constant) and c.args[1].value is None:
                bump("get(k, None)")
                c.args = c.args[:1]         # d.get(k, None) is d.get(k)
                return c
            if isinstance(f, ast.Attribute) and f.attr in ("startswith", "endswith") and len(c.args) == 1 and not c.keywords and isinstance(c.args[0], ast.Tuple) \
                    and 2 <= len(c.args[0].elts) <= 4 and _simple_arg(f.value):
                bump("startswith(tuple)")
                return loc(ast.BoolOp(op=ast.Or(), values=[ast.Call(func=copy.deepcopy(f), args=[e], keywords=[]) for e in c.args[0].elts]), c)
            if isinstance(f, ast.Name) and f.id == "isinstance" and len(c.args) == 2 and not c.keywords and isinstance(c.args[1], ast.Tuple) and 2 <= len(c.args[1].elts) <= 4 \
                    and _simple_arg(c.args[0]):
                bump("isinstance(tuple)")
                return loc(ast.BoolOp(op=ast.Or(), values=[ast.Call(func=ast.Name(id="isinstance", ctx=ast.Load()), args=[copy.deepcopy(c.args[0]), e], keywords=[]) for e in c.args[1].elts]), c)
            return c

        # ---- [f(k, D[k]) for k in D] is [f(k, _v) for k, _v in D.items()]
        def _comp_items(self, n):
            self.generic_visit(n)
            if len(n.generators) == 1:
                g = n.generators[0]
                if isinstance(g.target, ast.Name) and _simple_arg(g.iter) and not isinstance(g.iter, ast.Constant):
                    parts = ([n.key, n.value] if isinstance(n, ast.DictComp) else [n.elt]) + list(g.ifs)
                    if _items_rewrite(n, g.target, g.iter, parts, count):
                        g.target = loc(ast.Tuple(elts=[g.target, ast.Name(id="_v", ctx=ast.Store())], ctx=ast.Store()), g.target)
                        g.iter = loc(ast.Call(func=ast.Attribute(value=g.iter, attr="items", ctx=ast.Load()), args=[], keywords=[]), g.iter)
            return n
        visit_ListComp = visit_SetComp = visit_GeneratorExp = visit_DictComp = _comp_items

        # ---- x in [a, b] is x in (a, b): a display written in a membership test is only searched
        def visit_Subscript(self, n):
            # X.split(S, 1)[0] / X.split(S, maxsplit=1)[0] / X.partition(S)[0] is X.split(S)[0]: the text before the first separator
            self.generic_visit(n)
            v = n.value
            if isinstance(n.ctx, ast.Load) and isinstance(n.slice, ast.Constant) and n.slice.value == 0 and isinstance(v, ast.Call) and isinstance(v.func, ast.Attribute):
                one = lambda e: isinstance(e, ast.Constant) and e.value == 1 and type(e.value) is int
                if v.func.attr == "split" and (len(v.args) == 2 and not v.keywords and one(v.args[1])
                                               or len(v.args) == 1 and len(v.keywords) == 1 and v.keywords[0].arg == "maxsplit" and one(v.keywords[0].value)):
                    bump("split(s, 1)[0]")
                    v.args, v.keywords = v.args[:1], []
                elif v.func.attr == "partition" and len(v.args) == 1 and not v.keywords:
                    bump("partition(s)[0]")
                    v.func.attr = "split"
            return n

        def visit_Compare(self, n):
            self.generic_visit(n)
            _frozenset_in_equality(n)
            if len(n.ops) == 1 and isinstance(n.ops[0], (ast.In, ast.NotIn)) and isinstance(n.comparators[0], ast.List) \
                    and not any(isinstance(e, ast.Starred) for e in n.comparators[0].elts):
                bump("in [..]")
                n.comparators[0] = loc(ast.Tuple(elts=n.comparators[0].elts, ctx=ast.Load()), n.comparators[0])
            return n

        # ---- list(X) spelled [*X]; set(X) spelled {*X}
        def visit_List(self, n):
            self.generic_visit(n)
            if isinstance(n.ctx, ast.Load) and len(n.elts) == 1 and isinstance(n.elts[0], ast.Starred):
                bump("[*x]")
                return loc(ast.Call(func=ast.Name(id="list", ctx=ast.Load()), args=[n.elts[0].value], keywords=[]), n)
            return n

        # ---- X |= Y on a dict / set is X.update(Y)
        def visit_AugAssign(self, n):
            self.generic_visit(n)
            if isinstance(n.op, ast.BitOr) and isinstance(n.target, (ast.Name, ast.Attribute, ast.Subscript)) and not isinstance(n.value, ast.Constant):
                bump("x |= y")
                tgt = copy.deepcopy(n.target)
                for t in ast.walk(tgt):
                    if isinstance(t, (ast.Name, ast.Attribute, ast.Subscript)) and isinstance(getattr(t, "ctx", None), ast.Store):
                        t.ctx = ast.Load()
                return loc(ast.Expr(value=ast.Call(func=ast.Attribute(value=tgt, attr="update", ctx=ast.Load()), args=[n.value], keywords=[])), n)
            return n

        # ---- string building: "a" + x + f"{y}b" is f"a{x}{y}b"; {x!r} is {repr(x)}
        def visit_JoinedStr(self, n):
            self.generic_visit(n)
            for v in n.values:
                if isinstance(v, ast.FormattedValue) and v.format_spec is None and v.conversion in (114, 115):
                    bump("{x!r}")
                    v.value = ast.Call(func=ast.Name(id="repr" if v.conversion == 114 else "str", ctx=ast.Load()), args=[v.value], keywords=[])
                    v.conversion = -1
            return n

        def visit_BinOp(self, n):
            self.generic_visit(n)
            if not isinstance(n.op, ast.Add):
                return n

            def strish(e):
                return isinstance(e, ast.JoinedStr) or (isinstance(e, ast.Constant) and isinstance(e.value, str))
            if not (strish(n.left) or strish(n.right)):
                return n
            parts = []
            for side in (n.left, n.right):
                if isinstance(side, ast.JoinedStr):
                    parts.extend(side.values)
                elif isinstance(side, ast.Constant) and isinstance(side.value, str):
                    parts.append(side)
                else:
                    parts.append(ast.FormattedValue(value=side, conversion=-1, format_spec=None))
            merged = []
            for q in parts:
                if isinstance(q, ast.Constant) and merged and isinstance(merged[-1], ast.Constant):
                    merged[-1] = ast.Constant(value=merged[-1].value + q.value)
                else:
                    merged.append(q)
            bump("str +")
            return loc(ast.JoinedStr(values=merged), n)
    R().visit(tree)
    _guarded_affix_spellings(tree, bump)
    _len_tests(tree, bump)
    for k, v in count.items():
        stats[f"spelling:{k}"] = stats.get(f"spelling:{k}", 0) + v


SIZED_CALLS = {"list", "tuple", "set", "dict", "sorted", "frozenset"}


def _sized_expr(e):
    return isinstance(e, (ast.List, ast.Tuple, ast.Set, ast.Dict, ast.ListComp, ast.SetComp, ast.DictComp)) or \
        (isinstance(e, ast.Call) and isinstance(e.func, ast.Name) and e.func.id in SIZED_CALLS)


def _len_tests(tree, bump):
    """len(X) == 0 is `not X` (and len(X) != 0 / > 0 / >= 1 is the truth of X) when X is known to be a built-in container: a local all of
    whose definitions are displays / comprehensions / list()-like calls (or the *args tuple), or a `self` attribute every store of which in
    its class is one.  Nothing is assumed about other values (None, user objects): there the two tests differ."""
    class_attr = {}
    for cls in ast.walk(tree):
        if isinstance(cls, ast.ClassDef):
            stores = {}
            for n in ast.walk(cls):
                if isinstance(n, ast.Assign):
                    for t in n.targets:
                        if isinstance(t, ast.Attribute) and isinstance(t.value, ast.Name) and t.value.id == "self":
                            stores.setdefault(t.attr, []).append(n.value)
                elif isinstance(n, (ast.AugAssign, ast.AnnAssign)) and isinstance(n.target, ast.Attribute) and isinstance(n.target.value, ast.Name) and n.target.value.id == "self":
                    stores.setdefault(n.target.attr, []).append(None)
            for f in cls.body:
                if isinstance(f, FUNC):
                    class_attr[f] = {a for a, vs in stores.items() if vs and all(v is not None and _sized_expr(v) for v in vs)}

    def known(fn, attrs, x):
        if isinstance(x, ast.Name):
            if fn.args.vararg and fn.args.vararg.arg == x.id:
                return not any(isinstance(n, ast.Name) and n.id == x.id and isinstance(n.ctx, ast.Store) for n in ast.walk(fn))
            if any(a.arg == x.id for a in fn.args.posonlyargs + fn.args.args + fn.args.kwonlyargs) or (fn.args.kwarg and fn.args.kwarg.arg == x.id):
                return False
            vals, other = [], False
            for n in ast.walk(fn):
                if isinstance(n, ast.Assign):
                    for t in n.targets:
                        if isinstance(t, ast.Name) and t.id == x.id:
                            vals.append(n.value)
                        elif not isinstance(t, ast.Name) and any(isinstance(y, ast.Name) and y.id == x.id and isinstance(y.ctx, ast.Store) for y in ast.walk(t)):
                            other = True
                elif isinstance(n, (ast.For, ast.comprehension)) and any(isinstance(y, ast.Name) and y.id == x.id for y in ast.walk(n.target)):
                    other = True
                elif isinstance(n, (ast.AugAssign, ast.NamedExpr)) and isinstance(n.target, ast.Name) and n.target.id == x.id:
                    other = True
                elif isinstance(n, (ast.With,)) and any(i.optional_vars is not None and any(isinstance(y, ast.Name) and y.id == x.id for y in ast.walk(i.optional_vars)) for i in n.items):
                    other = True
                elif isinstance(n, (ast.Global, ast.Nonlocal)) and x.id in n.names:
                    other = True
            return bool(vals) and not other and all(_sized_expr(v) for v in vals)
        if isinstance(x, ast.Attribute) and isinstance(x.value, ast.Name) and x.value.id == "self":
            return x.attr in attrs
        return False

    def top(fn):
        attrs = class_attr.get(fn, set())

        class L(ast.NodeTransformer):
            def visit_FunctionDef(self, n):
                return n if n is not fn else self.generic_visit(n)
            visit_AsyncFunctionDef = visit_FunctionDef

            def visit_Compare(self, n):
                self.generic_visit(n)
                if len(n.ops) == 1 and isinstance(n.left, ast.Call) and isinstance(n.left.func, ast.Name) and n.left.func.id == "len" and len(n.left.args) == 1 \
                        and not n.left.keywords and isinstance(n.comparators[0], ast.Constant) and type(n.comparators[0].value) is int and known(fn, attrs, n.left.args[0]):
                    op, k, x = n.ops[0], n.comparators[0].value, n.left.args[0]
                    empty = (isinstance(op, ast.Eq) and k == 0) or (isinstance(op, ast.Lt) and k == 1) or (isinstance(op, ast.LtE) and k == 0)
                    nonempty = (isinstance(op, ast.NotEq) and k == 0) or (isinstance(op, ast.Gt) and k == 0) or (isinstance(op, ast.GtE) and k == 1)
                    if empty:
                        bump("len(x) == 0")
                        return loc(ast.UnaryOp(op=ast.Not(), operand=x), n)
                    if nonempty:
                        bump("len(x) != 0")
                        return loc(ast.Call(func=ast.Name(id="bool", ctx=ast.Load()), args=[x], keywords=[]), n)
                return n
        L().visit(fn)

        # bool(X) in a boolean position is X
        class B(ast.NodeTransformer):
            def unb(self, e):
                if isinstance(e, ast.Call) and isinstance(e.func, ast.Name) and e.func.id == "bool" and len(e.args) == 1 and not e.keywords:
                    a = e.args[0]
                    # written by hand around something that is already a bool (a cautious maintainer's redundancy): the same test
                    already = isinstance(a, (ast.Compare, ast.BoolOp)) or isinstance(a, ast.UnaryOp) and isinstance(a.op, ast.Not) or \
                        isinstance(a, ast.Call) and isinstance(a.func, ast.Name) and a.func.id in ("callable", "isinstance", "issubclass", "hasattr", "any", "all", "bool")
                    if getattr(e, "_synth", True) or already:
                        return a
                return e

            def visit_If(self, n):
                self.generic_visit(n)
                n.test = self.unb(n.test)
                return n
            visit_While = visit_IfExp = visit_If

            def visit_UnaryOp(self, n):
                self.generic_visit(n)
                if isinstance(n.op, ast.Not):
                    n.operand = self.unb(n.operand)
                return n

            def visit_BoolOp(self, n):
                self.generic_visit(n)
                return n
        B().visit(fn)
    for f in ast.walk(tree):
        if isinstance(f, FUNC):
            top(f)


def _map_as_generator(m):
    """map(F, X) consumed on the spot is (F(_m) for _m in X); map(attrgetter("a"), X) is (_m.a for _m in X)."""
    F, X = m.args
    var = ast.Name(id="_m", ctx=ast.Load())
    if isinstance(F, ast.Call) and ast.unparse(F.func) in ("attrgetter", "operator.attrgetter") and len(F.args) == 1 and isinstance(F.args[0], ast.Constant) \
            and isinstance(F.args[0].value, str) and F.args[0].value.isidentifier() and not F.keywords:
        elt = ast.Attribute(value=var, attr=F.args[0].value, ctx=ast.Load())
    elif _simple_arg(F) and not isinstance(F, ast.Constant):
        elt = ast.Call(func=F, args=[var], keywords=[])
    else:
        return None
    return ast.GeneratorExp(elt=elt, generators=[ast.comprehension(target=ast.Name(id="_m", ctx=ast.Store()), iter=X, ifs=[], is_async=0)])


def _guarded_affix_spellings(tree, bump):
    """s.removeprefix(P) where s.startswith(P) is known to hold is s[len(P):] (same for removesuffix / endswith)."""
    def conj(test):
        if isinstance(test, ast.BoolOp) and isinstance(test.op, ast.And):
            out = set()
            for v in test.values:
                out |= conj(v)
            return out
        return {ast.unparse(test)}

    class G(ast.NodeTransformer):
        def __init__(self):
            self.guards = [set()]

        def under(self, extra, nodes):
            self.guards.append(self.guards[-1] | extra)
            out = [self.visit(x) for x in nodes]
            self.guards.pop()
            return out

        def visit_If(self, n):
            n.test = self.visit(n.test)
            body = []
            for r in self.under(conj(n.test), n.body):
                body.extend(r if isinstance(r, list) else [r])
            n.body = body
            n.orelse = [self.visit(x) for x in n.orelse]
            return n

        def visit_IfExp(self, n):
            n.test = self.visit(n.test)
            n.body = self.under(conj(n.test), [n.body])[0]
            n.orelse = self.visit(n.orelse)
            return n

        def visit_BoolOp(self, n):
            if isinstance(n.op, ast.And):
                seen = set()
                for i, v in enumerate(n.values):
                    n.values[i] = self.under(seen, [v])[0]
                    seen = seen | conj(n.values[i])
                return n
            return self.generic_visit(n)

        def _comp(self, n, parts):
            g = set()
            for gen in n.generators:
                gen.iter = self.under(g, [gen.iter])[0]
                for i, c in enumerate(gen.ifs):
                    gen.ifs[i] = self.under(g, [c])[0]
                    g = g | conj(gen.ifs[i])
            for f in parts:
                setattr(n, f, self.under(g, [getattr(n, f)])[0])
            return n

        def visit_ListComp(self, n):
            return self._comp(n, ["elt"])
        visit_SetComp = visit_GeneratorExp = visit_ListComp

        def visit_DictComp(self, n):
            return self._comp(n, ["key", "value"])

        def visit_Call(self, c):
            self.generic_visit(c)
            f = c.func
            if isinstance(f, ast.Attribute) and f.attr in ("removeprefix", "removesuffix") and len(c.args) == 1 and not c.keywords \
                    and isinstance(c.args[0], ast.Constant) and isinstance(c.args[0].value, str) and c.args[0].value and _simple_arg(f.value):
                test = "startswith" if f.attr == "removeprefix" else "endswith"
                if f"{ast.unparse(f.value)}.{test}({ast.unparse(c.args[0])})" in self.guards[-1]:
                    k = len(c.args[0].value)
                    bump(f.attr)
                    sl = ast.Slice(lower=ast.Constant(value=k), upper=None, step=None) if f.attr == "removeprefix" else \
                        ast.Slice(lower=None, upper=ast.UnaryOp(op=ast.USub(), operand=ast.Constant(value=k)), step=None)
                    return loc(ast.Subscript(value=f.value, slice=sl, ctx=ast.Load()), c)
            return c
    G().visit(tree)


# ------------------------------------------------------------------------------------------------ 1b. new named constants
def _immutable_constant(v):
    """A value expression that is a constant of an immutable type (so naming it changes nothing but the text)."""
    if isinstance(v, ast.Constant):
        return True
    if isinstance(v, ast.Lambda):
        return not v.args.defaults and not v.args.kw_defaults       # a function written on the spot: as immutable as a constant
    if isinstance(v, ast.Tuple):
        return all(_immutable_constant(e) or (_simple_arg(e) and not isinstance(e, ast.Constant)) for e in v.elts)      # a table may name existing objects
    if isinstance(v, ast.UnaryOp):
        return _immutable_constant(v.operand)
    if isinstance(v, ast.BinOp):
        return _immutable_constant(v.left) and _immutable_constant(v.right)
    if isinstance(v, ast.Call) and ast.unparse(v.func) == "re.compile" and 1 <= len(v.args) <= 2 and not v.keywords and all(_immutable_constant(a) or _simple_arg(a) for a in v.args):
        return True       # a compiled pattern: `P.split(s)` is `re.split(<pattern>, s)`
    if isinstance(v, ast.Call) and isinstance(v.func, ast.Name) and v.func.id in ("frozenset", "tuple") and not v.keywords and len(v.args) <= 1:
        return all(isinstance(a, (ast.Set, ast.List, ast.Tuple)) and all(_immutable_constant(e) for e in a.elts) or _immutable_constant(a) for a in v.args)
    return False


def _frozenset_in_equality(tree):
    """x == frozenset({a, b}) is x == {a, b} (sets compare by content whatever their mutability)."""
    for n in ast.walk(tree):
        if isinstance(n, ast.Compare) and all(isinstance(o, (ast.Eq, ast.NotEq)) for o in n.ops):
            def plain(e):
                if isinstance(e, ast.Call) and isinstance(e.func, ast.Name) and e.func.id == "frozenset" and len(e.args) == 1 and not e.keywords and isinstance(e.args[0], ast.Set):
                    return loc(e.args[0], e)
                return e
            n.left = plain(n.left)
            n.comparators = [plain(c) for c in n.comparators]


def propagate_new_constants(tree, modname, known_names, stats):
    """A module-level or class-level name that the reference does not know, bound once to an immutable constant and never
    rebound, is replaced by its value where it is read ("introduce a named constant" undone)."""
    consts, cconsts = {}, {}
    stores = {}
    for n in ast.walk(tree):
        if isinstance(n, ast.Name) and isinstance(n.ctx, (ast.Store, ast.Del)):
            stores[n.id] = stores.get(n.id, 0) + 1
        elif isinstance(n, (ast.Global, ast.Nonlocal)):
            for x in n.names:
                stores[x] = stores.get(x, 0) + 2
        elif isinstance(n, ast.Attribute) and isinstance(n.ctx, (ast.Store, ast.Del)):
            stores["." + n.attr] = stores.get("." + n.attr, 0) + 1
    for st in tree.body:
        if isinstance(st, ast.Assign) and len(st.targets) == 1 and isinstance(st.targets[0], ast.Name) and _immutable_constant(st.value):
            nm = st.targets[0].id
            if nm not in known_names and stores.get(nm) == 1 and not (nm.startswith("__") and nm.endswith("__")):
                consts[nm] = (st, st.value)
        elif isinstance(st, ast.ClassDef):
            for m in st.body:
                if isinstance(m, ast.Assign) and len(m.targets) == 1 and isinstance(m.targets[0], ast.Name) and _immutable_constant(m.value):
                    nm = m.targets[0].id
                    if f"{st.name}.{nm}" not in known_names and stores.get(nm) == 1 and not stores.get("." + nm) and not (nm.startswith("__") and nm.endswith("__")):
                        cconsts[nm] = (st, m, m.value)
    if not consts and not cconsts:
        return

    class P(ast.NodeTransformer):
        def visit_Name(self, n):
            if isinstance(n.ctx, ast.Load) and n.id in consts:
                return loc(copy.deepcopy(consts[n.id][1]), n)
            return n

        def visit_Attribute(self, n):
            self.generic_visit(n)
            if isinstance(n.ctx, ast.Load) and n.attr in cconsts and isinstance(n.value, ast.Name) and n.value.id in ("self", "cls", cconsts[n.attr][0].name):
                return loc(copy.deepcopy(cconsts[n.attr][2]), n)
            return n
    P().visit(tree)
    _frozenset_in_equality(tree)
    # re.compile(P[, F]).method(args) is re.method(P, args[, flags=F])
    for n in ast.walk(tree):
        if isinstance(n, ast.Call) and isinstance(n.func, ast.Attribute) and n.func.attr in ("split", "match", "search", "fullmatch", "sub", "subn", "findall", "finditer") \
                and isinstance(n.func.value, ast.Call) and ast.unparse(n.func.value.func) == "re.compile" and not n.func.value.keywords and 1 <= len(n.func.value.args) <= 2:
            comp = n.func.value
            n.func = loc(ast.Attribute(value=ast.Name(id="re", ctx=ast.Load()), attr=n.func.attr, ctx=ast.Load()), n.func)
            n.args = [comp.args[0]] + list(n.args)
            if len(comp.args) == 2:
                n.keywords = list(n.keywords) + [ast.keyword(arg="flags", value=comp.args[1])]
    for nm, (st, _) in consts.items():
        tree.body.remove(st)
    for nm, (c, m, _) in cconsts.items():
        c.body.remove(m)
        if not c.body:
            c.body.append(ast.Pass())
    stats.setdefault("named-constants-inlined", []).extend(f"{modname}.{k}" for k in list(consts) + list(cconsts))


def attr_access_by_name(tree, stats):
    """getattr(x, "name") -> x.name ; setattr(x, "name", v) as a statement -> x.name = v  (literal identifiers only)."""
    count = 0

    class G(ast.NodeTransformer):
        def visit_JoinedStr(self, n):
            # a string built from literal pieces only ("_" + "close" after a table was unrolled) is that literal
            self.generic_visit(n)
            if all(isinstance(v, ast.Constant) and isinstance(v.value, str) or isinstance(v, ast.FormattedValue) and v.conversion == -1 and v.format_spec is None
                   and isinstance(v.value, ast.Constant) and isinstance(v.value.value, str) for v in n.values):
                return loc(ast.Constant(value="".join(v.value if isinstance(v, ast.Constant) else v.value.value for v in n.values)), n)
            return n

        def visit_Subscript(self, n):
            # {"a": x, "b": y}["a"] is x  (a literal table indexed by a literal key, plain values)
            self.generic_visit(n)
            if isinstance(n.ctx, ast.Load) and isinstance(n.value, ast.Dict) and isinstance(n.slice, ast.Constant) and all(isinstance(k, ast.Constant) for k in n.value.keys) \
                    and all(_simple_arg(v) for v in n.value.values):
                hit = [v for k, v in zip(n.value.keys, n.value.values) if k.value == n.slice.value]
                if len(hit) == 1:
                    return hit[0]
            return n

        def visit_Call(self, c):
            nonlocal count
            self.generic_visit(c)
            # f(**{"a": x, "b": y}) is f(a=x, b=y)
            if any(k.arg is None and isinstance(k.value, ast.Dict) and all(isinstance(kk, ast.Constant) and isinstance(kk.value, str) and kk.value.isidentifier() for kk in k.value.keys)
                   for k in c.keywords):
                kws = []
                for k in c.keywords:
                    if k.arg is None and isinstance(k.value, ast.Dict) and all(isinstance(kk, ast.Constant) and isinstance(kk.value, str) and kk.value.isidentifier() for kk in k.value.keys):
                        kws += [ast.keyword(arg=kk.value, value=vv) for kk, vv in zip(k.value.keys, k.value.values)]
                    else:
                        kws.append(k)
                if len({k.arg for k in kws if k.arg}) == len([k for k in kws if k.arg]):
                    c.keywords = kws
                    count += 1
            if isinstance(c.func, ast.Name) and c.func.id == "getattr" and len(c.args) == 2 and not c.keywords and isinstance(c.args[1], ast.Constant) \
                    and isinstance(c.args[1].value, str) and c.args[1].value.isidentifier():
                count += 1
                return loc(ast.Attribute(value=c.args[0], attr=c.args[1].value, ctx=ast.Load()), c)
            return c
    G().visit(tree)
    for holder, fld, block in blocks_of(tree):
        for i, st in enumerate(block):
            if isinstance(st, ast.Expr) and isinstance(st.value, ast.Call) and isinstance(st.value.func, ast.Name) and st.value.func.id == "setattr" and len(st.value.args) == 3 \
                    and not st.value.keywords and isinstance(st.value.args[1], ast.Constant) and isinstance(st.value.args[1].value, str) and st.value.args[1].value.isidentifier():
                block[i] = loc(ast.Assign(targets=[ast.Attribute(value=st.value.args[0], attr=st.value.args[1].value, ctx=ast.Store())], value=st.value.args[2]), st)
                count += 1
    if count:
        stats["getattr/setattr-with-literal-name"] = stats.get("getattr/setattr-with-literal-name", 0) + count


# ------------------------------------------------------------------------------------------------ 2. statement idioms
def _names(node):
    return {n.id for n in ast.walk(node) if isinstance(n, ast.Name)}


def _is_empty_list(e):
    return (isinstance(e, ast.List) and not e.elts) or (isinstance(e, ast.Call) and isinstance(e.func, ast.Name) and e.func.id == "list" and not e.args and not e.keywords)


def _is_empty_dict(e):
    return (isinstance(e, ast.Dict) and not e.keys) or (isinstance(e, ast.Call) and isinstance(e.func, ast.Name) and e.func.id == "dict" and not e.args and not e.keywords)


def _is_empty_set(e):
    return isinstance(e, ast.Call) and isinstance(e.func, ast.Name) and e.func.id == "set" and not e.args and not e.keywords


def _loop_nest(loop, acc, kind):
    """(generators, element[, value]) when `loop` only ever adds to the accumulator `acc` (text), else None."""
    gens = [ast.comprehension(target=loop.target, iter=loop.iter, ifs=[], is_async=0)]
    if loop.orelse:
        return None
    body = loop.body
    while True:
        if len(body) != 1:
            return None
        st = body[0]
        if isinstance(st, ast.If) and not st.orelse:
            gens[-1].ifs.append(st.test)
            body = st.body
            continue
        if isinstance(st, ast.For) and not st.orelse:
            gens.append(ast.comprehension(target=st.target, iter=st.iter, ifs=[], is_async=0))
            body = st.body
            continue
        break
    leaf = None
    if kind == "list":
        if isinstance(st, ast.Expr) and isinstance(st.value, ast.Call) and isinstance(st.value.func, ast.Attribute) and ast.unparse(st.value.func.value) == acc \
                and len(st.value.args) == 1 and not st.value.keywords:
            if st.value.func.attr == "append":
                leaf = (st.value.args[0],)
            elif st.value.func.attr == "extend":
                leaf = _spread(st.value.args[0], gens)
        elif isinstance(st, ast.AugAssign) and isinstance(st.op, ast.Add) and ast.unparse(st.target) == acc:
            leaf = _spread(st.value, gens)
        elif isinstance(st, ast.Assign) and len(st.targets) == 1 and ast.unparse(st.targets[0]) == acc and isinstance(st.value, ast.BinOp) and isinstance(st.value.op, ast.Add) \
                and ast.unparse(st.value.left) == acc:
            leaf = _spread(st.value.right, gens)        # X = X + E
    elif kind == "set":
        if isinstance(st, ast.Expr) and isinstance(st.value, ast.Call) and isinstance(st.value.func, ast.Attribute) and ast.unparse(st.value.func.value) == acc \
                and st.value.func.attr == "add" and len(st.value.args) == 1:
            leaf = (st.value.args[0],)
    elif kind == "dict":
        if isinstance(st, ast.Assign) and len(st.targets) == 1 and isinstance(st.targets[0], ast.Subscript) and ast.unparse(st.targets[0].value) == acc:
            leaf = (st.targets[0].slice, st.value)
    if leaf is None:
        return None
    accname = acc.split(".")[0].split("[")[0]
    for g in gens:
        if accname in _names(g.iter) or any(accname in _names(c) for c in g.ifs) or accname in _names(g.target):
            return None
    if any(accname in _names(x) for x in leaf):
        return None
    return gens, leaf


def _spread(e, gens):
    if isinstance(e, (ast.GeneratorExp, ast.ListComp)):
        gens.extend(copy.deepcopy(e.generators))
        return (e.elt,)
    gens.append(ast.comprehension(target=ast.Name(id="_t", ctx=ast.Store()), iter=e, ifs=[], is_async=0))
    return (ast.Name(id="_t", ctx=ast.Load()),)


def _has_flow(loop):
    return any(isinstance(n, (ast.Break, ast.Continue, ast.Return, ast.Yield, ast.YieldFrom, ast.Await)) for n in ast.walk(loop))


def _walk_same_scope(node):
    """Nodes of a statement, not entering nested function / class bodies."""
    todo = [node]
    while todo:
        n = todo.pop()
        yield n
        for c in ast.iter_child_nodes(n):
            if not isinstance(c, (ast.FunctionDef, ast.AsyncFunctionDef, ast.Lambda, ast.ClassDef)):
                todo.append(c)


def _items_rewrite(holder, key, D, parts, counts):
    """Replace the reads `D[key]` inside `parts` by `_v` when that is all D and key[...] are used for there; -> True when something was replaced."""
    dtxt, k = ast.unparse(D), key.id
    hits, bad = [], False
    for p in parts:
        for n in ast.walk(p):
            if isinstance(n, ast.Subscript) and ast.unparse(n.value) == dtxt and isinstance(n.slice, ast.Name) and n.slice.id == k:
                if isinstance(n.ctx, ast.Load):
                    hits.append(n)
                else:
                    bad = True
            elif isinstance(n, ast.Name) and n.id == "_v":
                bad = True
            elif isinstance(n, ast.Name) and n.id == k and isinstance(n.ctx, (ast.Store, ast.Del)):
                bad = True
    if bad or not hits:
        return False
    hit_ids = {id(h.value) for h in hits}
    for p in parts:
        for n in ast.walk(p):
            if isinstance(n, (ast.Name, ast.Attribute)) and ast.unparse(n) == dtxt and id(n) not in hit_ids:
                par_is_hit = False
                if not par_is_hit:
                    return False        # D is used in another way inside the loop (mutation, aliasing, another key)
    for h in hits:
        _replace_node(holder, h, loc(ast.Name(id="_v", ctx=ast.Load()), h))
    counts["keys+subscript->items"] = counts.get("keys+subscript->items", 0) + 1
    return True


def canon_block(block, fn, counts):
    i = 0
    while i < len(block):
        st = block[i]
        nxt = block[i + 1] if i + 1 < len(block) else None
        # a = b[k] = E   ->   a = E ; b[k] = a      (first target a plain name: Python assigns left to right)
        if isinstance(st, ast.Assign) and len(st.targets) >= 2 and isinstance(st.targets[0], ast.Name) \
                and not any(isinstance(x, ast.Name) and x.id == st.targets[0].id for t in st.targets[1:] for x in ast.walk(t)):
            first = st.targets[0]
            out = [loc(ast.Assign(targets=[first], value=st.value), st)]
            for t in st.targets[1:]:
                out.append(loc(ast.Assign(targets=[t], value=ast.Name(id=first.id, ctx=ast.Load())), st))
            block[i:i + 1] = out
            counts["chained-assignment-split"] = counts.get("chained-assignment-split", 0) + 1
            continue
        # X = next((v for v in IT if C), None) ; if X is not None: BODY(X) <ends in a jump>   ->   for v in IT: if C: BODY(v)
        if isinstance(st, ast.Assign) and len(st.targets) == 1 and isinstance(st.targets[0], ast.Name) and isinstance(st.value, ast.Call) \
                and isinstance(st.value.func, ast.Name) and st.value.func.id == "next" and len(st.value.args) == 2 and not st.value.keywords \
                and isinstance(st.value.args[1], ast.Constant) and st.value.args[1].value is None and isinstance(st.value.args[0], ast.GeneratorExp) \
                and isinstance(nxt, ast.If) and not nxt.orelse:
            X, g = st.targets[0].id, st.value.args[0]
            t = nxt.test
            if len(g.generators) == 1 and isinstance(g.generators[0].target, ast.Name) and isinstance(g.elt, ast.Name) and g.elt.id == g.generators[0].target.id \
                    and not g.generators[0].is_async and g.generators[0].ifs \
                    and isinstance(t, ast.Compare) and len(t.ops) == 1 and isinstance(t.ops[0], ast.IsNot) and isinstance(t.left, ast.Name) and t.left.id == X \
                    and isinstance(t.comparators[0], ast.Constant) and t.comparators[0].value is None \
                    and nxt.body and isinstance(nxt.body[-1], (ast.Return, ast.Raise)) \
                    and not any(isinstance(n, ast.Name) and n.id == X for b in block[i + 2:] for n in ast.walk(b)):
                v = g.generators[0].target.id
                body = [_Subst({X: v}).visit(b) for b in nxt.body]
                conds_ = g.generators[0].ifs
                test = conds_[0] if len(conds_) == 1 else ast.BoolOp(op=ast.And(), values=list(conds_))
                loop = loc(ast.For(target=ast.Name(id=v, ctx=ast.Store()), iter=g.generators[0].iter,
                                   body=[loc(ast.If(test=test, body=body, orelse=[]), nxt)], orelse=[], type_comment=None), st)
                block[i:i + 2] = [loop]
                counts["next(search)->loop"] = counts.get("next(search)->loop", 0) + 1
                continue
        # X = {..} ; X.update(E)   ->   X = {.., **E}
        if isinstance(st, ast.Assign) and len(st.targets) == 1 and isinstance(st.targets[0], ast.Name) and isinstance(st.value, ast.Dict) \
                and isinstance(nxt, ast.Expr) and isinstance(nxt.value, ast.Call) and isinstance(nxt.value.func, ast.Attribute) and nxt.value.func.attr == "update" \
                and isinstance(nxt.value.func.value, ast.Name) and nxt.value.func.value.id == st.targets[0].id and len(nxt.value.args) == 1 and not nxt.value.keywords \
                and not any(isinstance(n, ast.Name) and n.id == st.targets[0].id for n in ast.walk(nxt.value.args[0])):
            st.value.keys.append(None)
            st.value.values.append(nxt.value.args[0])
            del block[i + 1]
            counts["dict+update->display"] = counts.get("dict+update->display", 0) + 1
            continue
        # F = False ; try: BODY ; F = True  finally: if not F: CLEANUP    ->   try: BODY  except BaseException: CLEANUP ; raise
        # (BODY has no return / break / continue, F is used nowhere else: the cleanup runs exactly when BODY raised)
        if isinstance(st, ast.Assign) and len(st.targets) == 1 and isinstance(st.targets[0], ast.Name) and isinstance(st.value, ast.Constant) and st.value.value is False \
                and isinstance(nxt, ast.Try) and not nxt.handlers and not nxt.orelse and len(nxt.finalbody) == 1 and len(nxt.body) >= 2:
            flag = st.targets[0].id
            last, fin = nxt.body[-1], nxt.finalbody[0]
            uses = sum(1 for n in ast.walk(fn) if isinstance(n, ast.Name) and n.id == flag)
            jumps = any(isinstance(n, (ast.Return, ast.Break, ast.Continue, ast.Yield, ast.YieldFrom, ast.Await)) for b in nxt.body for n in _walk_same_scope(b))
            if isinstance(last, ast.Assign) and len(last.targets) == 1 and isinstance(last.targets[0], ast.Name) and last.targets[0].id == flag \
                    and isinstance(last.value, ast.Constant) and last.value.value is True \
                    and isinstance(fin, ast.If) and not fin.orelse and isinstance(fin.test, ast.UnaryOp) and isinstance(fin.test.op, ast.Not) \
                    and isinstance(fin.test.operand, ast.Name) and fin.test.operand.id == flag and uses == 3 and not jumps:
                handler = ast.ExceptHandler(type=ast.Name(id="BaseException", ctx=ast.Load()), name=None, body=fin.body + [loc(ast.Raise(exc=None, cause=None), fin)])
                new_try = loc(ast.Try(body=nxt.body[:-1], handlers=[loc(handler, fin)], orelse=[], finalbody=[]), nxt)
                block[i:i + 2] = [new_try]
                counts["flag-finally->except-reraise"] = counts.get("flag-finally->except-reraise", 0) + 1
                continue
        # if (x := E) <op> ...:   ->   x = E ; if x <op> ...:      (the walrus is the first thing the statement evaluates)
        hold = "test" if isinstance(st, ast.If) else "value" if isinstance(st, (ast.Return, ast.Expr, ast.Assign)) and st.value is not None else None
        if hold:
            first = getattr(st, hold)
            while True:
                if isinstance(first, ast.BoolOp):
                    first = first.values[0]
                elif isinstance(first, ast.Compare):
                    first = first.left
                elif isinstance(first, ast.UnaryOp):
                    first = first.operand
                elif isinstance(first, ast.BinOp):
                    first = first.left
                elif isinstance(first, (ast.Attribute, ast.Subscript)):
                    first = first.value
                elif isinstance(first, ast.Call) and isinstance(first.func, ast.Name) and first.args and not isinstance(first.args[0], ast.Starred):
                    first = first.args[0]            # evaluating a plain name has no effect: the first argument comes first
                elif isinstance(first, ast.Call) and isinstance(first.func, ast.Attribute):
                    first = first.func.value
                elif isinstance(first, ast.IfExp):
                    first = first.test
                else:
                    break
            if isinstance(first, ast.NamedExpr) and isinstance(first.target, ast.Name):
                pre = loc(ast.Assign(targets=[ast.Name(id=first.target.id, ctx=ast.Store())], value=first.value), st)
                repl = loc(ast.Name(id=first.target.id, ctx=ast.Load()), first)
                if first is getattr(st, hold):
                    setattr(st, hold, repl)
                else:
                    _replace_node(st, first, repl)
                block[i:i] = [pre]
                counts["walrus-hoisted"] = counts.get("walrus-hoisted", 0) + 1
                i += 1
                continue
        # index loops:  for i in range(len(L)): T = L[i]; ...  ->  for T in L: ...      (reversed range -> reversed(L)); i used nowhere else, L untouched
        if isinstance(st, ast.For) and isinstance(st.target, ast.Name) and not st.orelse and st.body and isinstance(st.iter, ast.Call) \
                and isinstance(st.iter.func, ast.Name) and st.iter.func.id == "range" and not st.iter.keywords:
            ra = st.iter.args
            L = None
            if len(ra) == 1 and isinstance(ra[0], ast.Call) and isinstance(ra[0].func, ast.Name) and ra[0].func.id == "len" and len(ra[0].args) == 1 and _simple_arg(ra[0].args[0]):
                L, rev = ra[0].args[0], False
            elif len(ra) == 3 and ast.unparse(ra[1]) == "-1" and ast.unparse(ra[2]) == "-1" and isinstance(ra[0], ast.BinOp) and isinstance(ra[0].op, ast.Sub) \
                    and ast.unparse(ra[0].right) == "1" and isinstance(ra[0].left, ast.Call) and isinstance(ra[0].left.func, ast.Name) and ra[0].left.func.id == "len" \
                    and len(ra[0].left.args) == 1 and _simple_arg(ra[0].left.args[0]):
                L, rev = ra[0].left.args[0], True
            first = st.body[0]
            if L is not None and not isinstance(L, ast.Constant):
                # the index is only ever used to read L[i]: iterate over the elements
                ltxt0 = ast.unparse(L)
                reads = [n for b in st.body for n in ast.walk(b) if isinstance(n, ast.Subscript) and isinstance(n.ctx, ast.Load) and ast.unparse(n.value) == ltxt0
                         and isinstance(n.slice, ast.Name) and n.slice.id == st.target.id]
                i_all = sum(1 for b in st.body for n in ast.walk(b) if isinstance(n, ast.Name) and n.id == st.target.id)
                l_all = sum(1 for b in st.body for n in ast.walk(b) if isinstance(n, (ast.Name, ast.Attribute)) and ast.unparse(n) == ltxt0)
                later0 = any(isinstance(n, ast.Name) and n.id == st.target.id and isinstance(n.ctx, ast.Load) for b in block[i + 1:] for n in ast.walk(b))
                if reads and not (isinstance(first, ast.Assign) and len(reads) == 1 and first.value is reads[0]) and i_all == len(reads) and l_all == len(reads) and not later0 \
                        and not any(isinstance(n, ast.Name) and n.id == "_e" for n in ast.walk(fn)):
                    for r_ in reads:
                        _replace_node(st, r_, loc(ast.Name(id="_e", ctx=ast.Load()), r_))
                    st.target = loc(ast.Name(id="_e", ctx=ast.Store()), st.target)
                    st.iter = loc(ast.Call(func=ast.Name(id="reversed", ctx=ast.Load()), args=[L], keywords=[]), st.iter) if rev else L
                    counts["index-loop->direct"] = counts.get("index-loop->direct", 0) + 1
                    continue
            if L is not None and not isinstance(L, ast.Constant) and isinstance(first, ast.Assign) and len(first.targets) == 1 and isinstance(first.value, ast.Subscript) \
                    and ast.unparse(first.value.value) == ast.unparse(L) and isinstance(first.value.slice, ast.Name) and first.value.slice.id == st.target.id and len(st.body) >= 2:
                i_uses = sum(1 for b in st.body for n in ast.walk(b) if isinstance(n, ast.Name) and n.id == st.target.id)
                ltxt = ast.unparse(L)
                touched = any((isinstance(n, (ast.Name, ast.Attribute)) and ast.unparse(n) == ltxt and (isinstance(getattr(n, "ctx", None), (ast.Store, ast.Del))))
                              or (isinstance(n, ast.Call) and isinstance(n.func, ast.Attribute) and ast.unparse(n.func.value) == ltxt)
                              or (isinstance(n, ast.Subscript) and ast.unparse(n.value) == ltxt and isinstance(n.ctx, (ast.Store, ast.Del)))
                              for b in st.body[1:] for n in ast.walk(b))
                later = any(isinstance(n, ast.Name) and n.id == st.target.id and isinstance(n.ctx, ast.Load) for b in block[i + 1:] for n in ast.walk(b))
                if i_uses == 1 and not touched and not later:
                    st.target = first.targets[0]
                    st.iter = loc(ast.Call(func=ast.Name(id="reversed", ctx=ast.Load()), args=[L], keywords=[]), st.iter) if rev else L
                    st.body = st.body[1:]
                    counts["index-loop->direct"] = counts.get("index-loop->direct", 0) + 1
                    continue
        # for k in D: ... D[k] ...   ->   for k, _v in D.items(): ... _v ...      (D untouched in the body, D[k] only read)
        if isinstance(st, ast.For) and isinstance(st.target, ast.Name) and _simple_arg(st.iter) and not isinstance(st.iter, ast.Constant):
            if _items_rewrite(st, st.target, st.iter, st.body, counts):
                st.target = loc(ast.Tuple(elts=[st.target, ast.Name(id="_v", ctx=ast.Store())], ctx=ast.Store()), st.target)
                st.iter = loc(ast.Call(func=ast.Attribute(value=st.iter, attr="items", ctx=ast.Load()), args=[], keywords=[]), st.iter)
                continue
        # loop body: `if c: continue` + rest  ->  `if not c: rest`
        if isinstance(st, (ast.For, ast.While)):
            b = st.body
            k = 0
            while k < len(b) - 1:
                g = b[k]
                if isinstance(g, ast.If) and not g.orelse and len(g.body) == 1 and isinstance(g.body[0], ast.Continue):
                    b[k:] = [loc(ast.If(test=negate(g.test), body=b[k + 1:], orelse=[]), g)]
                    counts["continue-guard->nested"] = counts.get("continue-guard->nested", 0) + 1
                    b = b[k].body
                    k = 0
                    continue
                k += 1
        # for T in I: if C: break  else: S     ->   if not any(C for T in I): S
        if isinstance(st, ast.For) and st.orelse and len(st.body) == 1 and isinstance(st.body[0], ast.If) and not st.body[0].orelse \
                and len(st.body[0].body) == 1 and isinstance(st.body[0].body[0], ast.Break):
            anyc = ast.Call(func=ast.Name(id="any", ctx=ast.Load()), args=[ast.GeneratorExp(elt=st.body[0].test, generators=[ast.comprehension(target=st.target, iter=st.iter, ifs=[], is_async=0)])], keywords=[])
            block[i] = loc(ast.If(test=ast.UnaryOp(op=ast.Not(), operand=anyc), body=st.orelse, orelse=[]), st)
            counts["for-else search->any"] = counts.get("for-else search->any", 0) + 1
            continue
        # for x in (a, b): BODY   ->   BODY[x:=a] ; BODY[x:=b]      (a short literal sequence, no break/continue, x not rebound)
        if isinstance(st, ast.For) and not st.orelse and isinstance(st.iter, (ast.Tuple, ast.List)) and 1 <= len(st.iter.elts) <= 4 and isinstance(st.target, ast.Tuple) \
                and all(isinstance(t_, ast.Name) for t_ in st.target.elts) \
                and all(isinstance(e, ast.Tuple) and len(e.elts) == len(st.target.elts) and all(_simple_arg(x) or isinstance(x, ast.Lambda) for x in e.elts) for e in st.iter.elts) \
                and not any(isinstance(n, (ast.Break, ast.Continue)) for n in ast.walk(st)) \
                and not any(isinstance(n, ast.Name) and n.id in {t_.id for t_ in st.target.elts} and isinstance(n.ctx, (ast.Store, ast.Del)) for b_ in st.body for n in ast.walk(b_)):
            # for a, b in ((x1, y1), (x2, y2)): BODY   ->   BODY[a:=x1, b:=y1] ; BODY[a:=x2, b:=y2]     (a literal table of rows)
            out = []
            for e in st.iter.elts:
                m_ = {t_.id: x for t_, x in zip(st.target.elts, e.elts)}
                for b_ in st.body:
                    out.append(loc(_Subst(m_).visit(copy.deepcopy(b_)), b_))
            block[i:i + 1] = out
            counts["literal-table-loop-unrolled"] = counts.get("literal-table-loop-unrolled", 0) + 1
            continue
        if isinstance(st, ast.For) and not st.orelse and isinstance(st.iter, (ast.Tuple, ast.List)) and 1 <= len(st.iter.elts) <= 4 and isinstance(st.target, ast.Name) \
                and not any(isinstance(e, ast.Starred) for e in st.iter.elts) and all(_simple_arg(e) for e in st.iter.elts) \
                and not any(isinstance(n, (ast.Break, ast.Continue)) for n in ast.walk(st)) \
                and not any(isinstance(n, ast.Name) and n.id == st.target.id and isinstance(n.ctx, (ast.Store, ast.Del)) for b_ in st.body for n in ast.walk(b_)):
            out = []
            for e in st.iter.elts:
                for b_ in st.body:
                    out.append(loc(_Subst({st.target.id: e}).visit(copy.deepcopy(b_)), b_))
            block[i:i + 1] = out
            counts["literal-loop-unrolled"] = counts.get("literal-loop-unrolled", 0) + 1
            continue
        # X = set(chain(A, B, ..))   ->   X = set() ; X.update(A) ; X.update(B)
        if isinstance(st, ast.Assign) and len(st.targets) == 1 and isinstance(st.targets[0], ast.Name) and isinstance(st.value, ast.Call) and isinstance(st.value.func, ast.Name) \
                and st.value.func.id == "set" and len(st.value.args) == 1 and not st.value.keywords and isinstance(st.value.args[0], ast.Call) \
                and ast.unparse(st.value.args[0].func) in ("chain", "itertools.chain") and not st.value.args[0].keywords and 1 <= len(st.value.args[0].args) <= 4 \
                and not any(isinstance(a, ast.Starred) for a in st.value.args[0].args):
            X = st.targets[0].id
            if not any(isinstance(n, ast.Name) and n.id == X for a in st.value.args[0].args for n in ast.walk(a)):
                parts = st.value.args[0].args
                block[i:i + 1] = [loc(ast.Assign(targets=[ast.Name(id=X, ctx=ast.Store())], value=ast.Call(func=ast.Name(id="set", ctx=ast.Load()), args=[], keywords=[])), st)] + \
                    [loc(ast.Expr(value=ast.Call(func=ast.Attribute(value=ast.Name(id=X, ctx=ast.Load()), attr="update", ctx=ast.Load()), args=[a], keywords=[])), st) for a in parts]
                counts["set(chain)->updates"] = counts.get("set(chain)->updates", 0) + 1
                continue
        # return D.setdefault(K, V) / X = D.setdefault(K, V)   (V a constant, a display or a constructor call on plain arguments: building it and throwing it away
        # is unobservable)   ->   if K not in D: D[K] = V ; return D[K] / X = D[K]
        if isinstance(st, (ast.Return, ast.Assign)) and isinstance(st.value, ast.Call) and isinstance(st.value.func, ast.Attribute) and st.value.func.attr == "setdefault" \
                and len(st.value.args) == 2 and not st.value.keywords and _simple_arg(st.value.func.value) and _simple_arg(st.value.args[0]):
            D, K, V = st.value.func.value, st.value.args[0], st.value.args[1]
            cheap = isinstance(V, (ast.Constant, ast.List, ast.Dict, ast.Set, ast.Tuple)) and all(_simple_arg(e) for e in ast.iter_child_nodes(V) if isinstance(e, ast.expr)) or \
                isinstance(V, ast.Call) and isinstance(V.func, ast.Name) and V.func.id[:1].isupper() and all(_simple_arg(a) for a in V.args) and not V.keywords
            if cheap and (isinstance(st, ast.Return) or len(st.targets) == 1 and isinstance(st.targets[0], ast.Name)):
                def sub():
                    return ast.Subscript(value=copy.deepcopy(D), slice=copy.deepcopy(K), ctx=ast.Load())
                store = ast.Assign(targets=[ast.Subscript(value=copy.deepcopy(D), slice=copy.deepcopy(K), ctx=ast.Store())], value=V)
                guard = loc(ast.If(test=ast.Compare(left=copy.deepcopy(K), ops=[ast.NotIn()], comparators=[copy.deepcopy(D)]), body=[store], orelse=[]), st)
                st.value = loc(sub(), st)
                block[i:i + 1] = [guard, st]
                counts["setdefault->test-and-store"] = counts.get("setdefault->test-and-store", 0) + 1
                i += 2
                continue
        # T = T + k / T = T - k  (k a number)   ->   T += k / T -= k
        if isinstance(st, ast.Assign) and len(st.targets) == 1 and isinstance(st.value, ast.BinOp) and isinstance(st.value.op, (ast.Add, ast.Sub)) \
                and isinstance(st.value.right, ast.Constant) and type(st.value.right.value) in (int, float) and _simple_arg_or_item(st.targets[0]) \
                and ast.unparse(st.value.left) == ast.unparse(st.targets[0]):
            block[i] = loc(ast.AugAssign(target=st.targets[0], op=st.value.op, value=st.value.right), st)
            counts["x = x + k -> x += k"] = counts.get("x = x + k -> x += k", 0) + 1
            continue
        # A = T[0] ; B = list(T[1:])   ->   A, *B = T
        if isinstance(st, ast.Assign) and isinstance(nxt, ast.Assign) and len(st.targets) == 1 and len(nxt.targets) == 1 and isinstance(st.targets[0], ast.Name) \
                and isinstance(nxt.targets[0], ast.Name) and isinstance(st.value, ast.Subscript) and isinstance(st.value.value, ast.Name) \
                and isinstance(st.value.slice, ast.Constant) and st.value.slice.value == 0 and isinstance(nxt.value, ast.Call) and isinstance(nxt.value.func, ast.Name) \
                and nxt.value.func.id == "list" and len(nxt.value.args) == 1 and isinstance(nxt.value.args[0], ast.Subscript) and isinstance(nxt.value.args[0].slice, ast.Slice) \
                and ast.unparse(nxt.value.args[0]) == f"{st.value.value.id}[1:]" and st.targets[0].id != st.value.value.id:
            tgt = ast.Tuple(elts=[ast.Name(id=st.targets[0].id, ctx=ast.Store()), ast.Starred(value=ast.Name(id=nxt.targets[0].id, ctx=ast.Store()), ctx=ast.Store())], ctx=ast.Store())
            block[i:i + 2] = [loc(ast.Assign(targets=[tgt], value=st.value.value), st)]
            counts["head-and-rest->starred-unpacking"] = counts.get("head-and-rest->starred-unpacking", 0) + 1
            continue
        # if c1: F = True elif c2: F = True else: F = False   ->   F = c1 or c2      (every branch assigns a boolean literal to the same name)
        if isinstance(st, ast.If) and st.orelse:
            arms, cur_, ok_ = [], st, True
            while True:
                if len(cur_.body) == 1 and isinstance(cur_.body[0], ast.Assign) and len(cur_.body[0].targets) == 1 and isinstance(cur_.body[0].targets[0], ast.Name) \
                        and isinstance(cur_.body[0].value, ast.Constant) and isinstance(cur_.body[0].value.value, bool):
                    arms.append((cur_.test, cur_.body[0].targets[0].id, cur_.body[0].value.value))
                else:
                    ok_ = False
                    break
                if len(cur_.orelse) == 1 and isinstance(cur_.orelse[0], ast.If):
                    cur_ = cur_.orelse[0]
                    continue
                last_ = cur_.orelse
                break
            if ok_ and len(last_) == 1 and isinstance(last_[0], ast.Assign) and len(last_[0].targets) == 1 and isinstance(last_[0].targets[0], ast.Name) \
                    and len({a[1] for a in arms} | {last_[0].targets[0].id}) == 1 and not (isinstance(last_[0].value, ast.Constant) and isinstance(last_[0].value.value, bool)) \
                    and all(v is True for _, _, v in arms) and _simple_arg(last_[0].value):
                # ... else: F = E  (a flag computed elsewhere): F = c1 or c2 or E
                block[i] = loc(ast.Assign(targets=[ast.Name(id=arms[0][1], ctx=ast.Store())], value=ast.BoolOp(op=ast.Or(), values=[t for t, _, _ in arms] + [last_[0].value])), st)
                counts["boolean-flag-chain->expression"] = counts.get("boolean-flag-chain->expression", 0) + 1
                continue
            if ok_ and len(last_) == 1 and isinstance(last_[0], ast.Assign) and len(last_[0].targets) == 1 and isinstance(last_[0].targets[0], ast.Name) \
                    and isinstance(last_[0].value, ast.Constant) and isinstance(last_[0].value.value, bool) and len({a[1] for a in arms} | {last_[0].targets[0].id}) == 1:
                final = last_[0].value.value
                if all(v is (not final) for _, _, v in arms):
                    disj = arms[0][0] if len(arms) == 1 else ast.BoolOp(op=ast.Or(), values=[t for t, _, _ in arms])
                    val = disj if final is False else negate(disj)
                    block[i] = loc(ast.Assign(targets=[ast.Name(id=arms[0][1], ctx=ast.Store())], value=val), st)
                    counts["boolean-flag-chain->expression"] = counts.get("boolean-flag-chain->expression", 0) + 1
                    continue
        # X = A ; X = B(X)   (the first X read only there, once)   ->   X = B(A)
        if isinstance(st, ast.Assign) and len(st.targets) == 1 and isinstance(st.targets[0], ast.Name) and isinstance(nxt, ast.Assign) and len(nxt.targets) == 1 \
                and isinstance(nxt.targets[0], ast.Name) and nxt.targets[0].id == st.targets[0].id:
            X = st.targets[0].id
            reads = [n for n in ast.walk(nxt.value) if isinstance(n, ast.Name) and n.id == X and isinstance(n.ctx, ast.Load)]
            if len(reads) == 1 and not any(isinstance(n, (ast.Lambda, ast.ListComp, ast.SetComp, ast.DictComp, ast.GeneratorExp, ast.IfExp, ast.BoolOp)) and any(x is reads[0] for x in ast.walk(n))
                                           for n in ast.walk(nxt.value)):
                upos_ = (reads[0].lineno, reads[0].col_offset)
                early_ = [n for n in ast.walk(nxt.value) if isinstance(n, ast.Call) and not any(x is reads[0] for x in ast.walk(n))
                          and (getattr(n, "end_lineno", n.lineno), getattr(n, "end_col_offset", 0)) <= upos_ and not _pure_call(n)]
                if not early_:
                    _replace_node(nxt, reads[0], st.value)
                    del block[i]
                    counts["rebound-temporary-folded"] = counts.get("rebound-temporary-folded", 0) + 1
                    continue
        # if C: S else: pass   ->   if C: S
        if isinstance(st, ast.If) and len(st.orelse) == 1 and isinstance(st.orelse[0], ast.Pass):
            st.orelse = []
            counts["else-pass-dropped"] = counts.get("else-pass-dropped", 0) + 1
            continue
        # a bare `return` / `return None` that ends the function body: falling off the end says the same
        if block is fn.body and i == len(block) - 1 and i > 0 and isinstance(st, ast.Return) and (st.value is None or isinstance(st.value, ast.Constant) and st.value.value is None) \
                and not isinstance(fn, ast.Lambda):
            del block[i]
            counts["final-return-none-dropped"] = counts.get("final-return-none-dropped", 0) + 1
            continue
        # if C: pass else: E   ->   if not C: E
        if isinstance(st, ast.If) and len(st.body) == 1 and isinstance(st.body[0], ast.Pass) and st.orelse:
            block[i] = loc(ast.If(test=negate(st.test), body=st.orelse, orelse=[]), st)
            if len(st.orelse) == 1 and isinstance(st.orelse[0], ast.If):
                pass
            counts["empty-branch->negated-test"] = counts.get("empty-branch->negated-test", 0) + 1
            continue
        # x = x   (left over when a helper's result lands in the variable it was computed in): nothing
        if isinstance(st, ast.Assign) and len(st.targets) == 1 and isinstance(st.targets[0], ast.Name) and isinstance(st.value, ast.Name) and st.value.id == st.targets[0].id \
                and len(block) > 1:
            del block[i]
            counts["self-assignment-dropped"] = counts.get("self-assignment-dropped", 0) + 1
            continue
        # if A: (if B: S)      ->   if A and B: S        (neither has an else branch)
        if isinstance(st, ast.If) and not st.orelse and len(st.body) == 1 and isinstance(st.body[0], ast.If) and not st.body[0].orelse:
            inner_ = st.body[0]
            vals = (st.test.values if isinstance(st.test, ast.BoolOp) and isinstance(st.test.op, ast.And) else [st.test]) + \
                   (inner_.test.values if isinstance(inner_.test, ast.BoolOp) and isinstance(inner_.test.op, ast.And) else [inner_.test])
            st.test = loc(ast.BoolOp(op=ast.And(), values=list(vals)), st.test)
            st.body = inner_.body
            counts["nested-ifs->and"] = counts.get("nested-ifs->and", 0) + 1
            continue
        # X = E ; if not X: X = D      ->   X = E or D
        if isinstance(st, ast.Assign) and len(st.targets) == 1 and isinstance(st.targets[0], ast.Name) and isinstance(nxt, ast.If) and not nxt.orelse and len(nxt.body) == 1 \
                and isinstance(nxt.test, ast.UnaryOp) and isinstance(nxt.test.op, ast.Not) and isinstance(nxt.test.operand, ast.Name) and nxt.test.operand.id == st.targets[0].id \
                and isinstance(nxt.body[0], ast.Assign) and len(nxt.body[0].targets) == 1 and isinstance(nxt.body[0].targets[0], ast.Name) \
                and nxt.body[0].targets[0].id == st.targets[0].id \
                and not any(isinstance(n, ast.Name) and n.id == st.targets[0].id for n in ast.walk(nxt.body[0].value)):
            st.value = loc(ast.BoolOp(op=ast.Or(), values=[st.value, nxt.body[0].value]), st.value)
            del block[i + 1]
            counts["default-if-falsy->or"] = counts.get("default-if-falsy->or", 0) + 1
            continue
        # single exit -> one return per branch:   if C: ..; X = A  else: ..; X = B ;  return X    ->   if C: ..; return A  else: ..; return B
        if isinstance(st, ast.If) and st.orelse and isinstance(nxt, ast.Return) and isinstance(nxt.value, ast.Name):
            X = nxt.value.id

            def leaves(ifnode):
                """the last statements of every branch of an if / elif / else chain, or None when a branch does not end in `X = E`"""
                out_ = []
                for br in (ifnode.body, ifnode.orelse):
                    if not br:
                        return None
                    last_ = br[-1]
                    if isinstance(last_, ast.If) and len(br) == 1 and last_.orelse:
                        sub = leaves(last_)
                        if sub is None:
                            return None
                        out_ += sub
                    elif isinstance(last_, ast.Assign) and len(last_.targets) == 1 and isinstance(last_.targets[0], ast.Name) and last_.targets[0].id == X:
                        out_.append((br, last_))
                    else:
                        return None
                return out_
            ls = leaves(st)
            reads_elsewhere = [n for n in ast.walk(fn) if isinstance(n, ast.Name) and n.id == X and isinstance(n.ctx, ast.Load) and n is not nxt.value]
            inside = [n for n in ast.walk(st) if isinstance(n, ast.Name) and n.id == X and isinstance(n.ctx, ast.Load)]
            if ls and not [n for n in reads_elsewhere if n not in inside] and not inside:
                for br, last_ in ls:
                    br[-1] = loc(ast.Return(value=last_.value), last_)
                del block[i + 1]
                counts["single-exit->return-per-branch"] = counts.get("single-exit->return-per-branch", 0) + 1
                continue
        # if C: X = A else: X = B ; <simple statement reading X once>   ->   the statement with (A if C else B) for X   (X read nowhere else; C, A, B call-free)
        if isinstance(st, ast.If) and len(st.body) == 1 and len(st.orelse) == 1 and isinstance(nxt, (ast.Assign, ast.Expr, ast.Return, ast.AugAssign)):
            a_, b_ = st.body[0], st.orelse[0]
            if isinstance(a_, ast.Assign) and isinstance(b_, ast.Assign) and len(a_.targets) == 1 and len(b_.targets) == 1 and isinstance(a_.targets[0], ast.Name) \
                    and isinstance(b_.targets[0], ast.Name) and a_.targets[0].id == b_.targets[0].id:
                X = a_.targets[0].id
                reads = [n for n in ast.walk(nxt) if isinstance(n, ast.Name) and n.id == X and isinstance(n.ctx, ast.Load)]
                total = [n for n in ast.walk(fn) if isinstance(n, ast.Name) and n.id == X]
                calm = not any(isinstance(n, (ast.Await, ast.Yield, ast.YieldFrom, ast.NamedExpr, ast.Lambda)) or isinstance(n, ast.Call) and not _pure_call(n)
                               for e in (st.test, a_.value, b_.value) for n in ast.walk(e))
                # C, A, B move behind whatever the statement evaluates before it reads X: only reading calls may stand there
                upos_ = (reads[0].lineno, reads[0].col_offset) if len(reads) == 1 else (0, 0)
                early_ = [n for n in ast.walk(nxt) if isinstance(n, ast.Call) and len(reads) == 1 and not any(x is reads[0] for x in ast.walk(n))
                          and (getattr(n, "end_lineno", n.lineno), getattr(n, "end_col_offset", 0)) <= upos_ and not _pure_call(n)]
                if len(reads) == 1 and len(total) == 3 and calm and not early_:
                    ie = loc(ast.IfExp(test=st.test, body=a_.value, orelse=b_.value), st)
                    for n in ast.walk(nxt):
                        for f_, val in ast.iter_fields(n):
                            if val is reads[0]:
                                setattr(n, f_, ie)
                            elif isinstance(val, list):
                                for k_, e_ in enumerate(val):
                                    if e_ is reads[0]:
                                        val[k_] = ie
                    del block[i]
                    counts["branch-temp->conditional-expression"] = counts.get("branch-temp->conditional-expression", 0) + 1
                    continue
        # if C: X = A else: X = B ; if TEST(X): S      ->   if C: (if TEST(A): S) else: (if TEST(B): S)     (X used only in that test)
        if isinstance(st, ast.If) and len(st.body) == 1 and len(st.orelse) == 1 and isinstance(nxt, ast.If) and not nxt.orelse and len(nxt.body) <= 3:
            a_, b_ = st.body[0], st.orelse[0]
            if isinstance(a_, ast.Assign) and isinstance(b_, ast.Assign) and len(a_.targets) == 1 and len(b_.targets) == 1 and isinstance(a_.targets[0], ast.Name) \
                    and isinstance(b_.targets[0], ast.Name) and a_.targets[0].id == b_.targets[0].id:
                X = a_.targets[0].id
                in_test = [n for n in ast.walk(nxt.test) if isinstance(n, ast.Name) and n.id == X]
                total = [n for n in ast.walk(fn) if isinstance(n, ast.Name) and n.id == X]
                if len(in_test) == 1 and len(total) == 3:
                    def with_value(v):
                        t2 = copy.deepcopy(nxt.test)
                        if isinstance(t2, ast.Name) and t2.id == X:
                            return copy.deepcopy(v)
                        for n in ast.walk(t2):
                            for f_, val in ast.iter_fields(n):
                                if isinstance(val, ast.Name) and val.id == X:
                                    setattr(n, f_, copy.deepcopy(v))
                                elif isinstance(val, list):
                                    for k_, e_ in enumerate(val):
                                        if isinstance(e_, ast.Name) and e_.id == X:
                                            val[k_] = copy.deepcopy(v)
                        return t2
                    def tidy(t_):
                        # `not (a == b)` is written `a != b` (the spelling negate() gives), so that both routes to this form agree
                        if isinstance(t_, ast.UnaryOp) and isinstance(t_.op, ast.Not) and isinstance(t_.operand, ast.Compare) and len(t_.operand.ops) == 1 \
                                and type(t_.operand.ops[0]) in NEGOP:
                            return negate(t_.operand)
                        return t_
                    ia = loc(ast.If(test=tidy(with_value(a_.value)), body=nxt.body, orelse=[]), nxt)
                    ib = loc(ast.If(test=tidy(with_value(b_.value)), body=copy.deepcopy(nxt.body), orelse=[]), nxt)
                    block[i:i + 2] = [loc(ast.If(test=st.test, body=[ia], orelse=[ib]), st)]
                    counts["branch-temp-in-test->nested-ifs"] = counts.get("branch-temp-in-test->nested-ifs", 0) + 1
                    continue
        # if (A if C else B): S     ->   if C: (if A: S) else: (if B: S)        (also under `not`; S short, no else branch)
        if isinstance(st, ast.If) and not st.orelse and len(st.body) <= 3:
            t_, neg_ = st.test, False
            while isinstance(t_, ast.UnaryOp) and isinstance(t_.op, ast.Not):
                t_, neg_ = t_.operand, not neg_
            if isinstance(t_, ast.IfExp):
                def arm(e):
                    return negate(e) if neg_ else e
                inner_a = loc(ast.If(test=arm(t_.body), body=st.body, orelse=[]), st)
                inner_b = loc(ast.If(test=arm(t_.orelse), body=copy.deepcopy(st.body), orelse=[]), st)
                block[i] = loc(ast.If(test=t_.test, body=[inner_a], orelse=[inner_b]), st)
                counts["conditional-test->nested-ifs"] = counts.get("conditional-test->nested-ifs", 0) + 1
                continue
        # if c: X.append(A) else: X.append(B)   ->   X.append(A if c else B)      (the single-item form keeps its conditional value: see below)
        if isinstance(st, ast.If) and len(st.body) == 1 and len(st.orelse) == 1:
            a_, b_ = st.body[0], st.orelse[0]

            def one_append(e):
                return isinstance(e, ast.Expr) and isinstance(e.value, ast.Call) and isinstance(e.value.func, ast.Attribute) and e.value.func.attr in ("append", "add") \
                    and len(e.value.args) == 1 and not e.value.keywords and _simple_arg(e.value.func.value) and not isinstance(e.value.args[0], ast.Starred)
            if one_append(a_) and one_append(b_) and ast.unparse(a_.value.func) == ast.unparse(b_.value.func):
                block[i] = loc(ast.Expr(value=ast.Call(func=a_.value.func, args=[loc(ast.IfExp(test=st.test, body=a_.value.args[0], orelse=b_.value.args[0]), st)], keywords=[])), st)
                counts["if/else-append->conditional-item"] = counts.get("if/else-append->conditional-item", 0) + 1
                continue
        # X.extend(A if c else B)  ->  if c: X.extend(A) else: X.extend(B)   (update alike; a single-item append/add keeps its conditional value)
        if isinstance(st, ast.Expr) and isinstance(st.value, ast.Call) and isinstance(st.value.func, ast.Attribute) and st.value.func.attr in ("extend", "update") \
                and len(st.value.args) == 1 and not st.value.keywords and isinstance(st.value.args[0], ast.IfExp):
            ie = st.value.args[0]

            def mk(v):
                return loc(ast.Expr(value=ast.Call(func=copy.deepcopy(st.value.func), args=[v], keywords=[])), st)
            block[i] = loc(ast.If(test=ie.test, body=[mk(ie.body)], orelse=[mk(ie.orelse)]), st)
            counts["conditional-argument->if/else"] = counts.get("conditional-argument->if/else", 0) + 1
            canon_block(block[i].body, fn, counts)
            canon_block(block[i].orelse, fn, counts)
            if not block[i].orelse and not block[i].body:
                del block[i]
            elif not block[i].body:
                block[i] = loc(ast.If(test=negate(ie.test), body=block[i].orelse, orelse=[]), st)
            continue
        if isinstance(st, ast.Expr) and isinstance(st.value, ast.Call) and isinstance(st.value.func, ast.Attribute) and st.value.func.attr in ("extend", "update") \
                and len(st.value.args) == 1 and not st.value.keywords and isinstance(st.value.args[0], (ast.List, ast.Tuple, ast.Set, ast.Dict)):
            a0 = st.value.args[0]
            n_items = len(a0.keys) if isinstance(a0, ast.Dict) else len(a0.elts)
            if n_items == 0:
                del block[i]
                counts["empty-extend-dropped"] = counts.get("empty-extend-dropped", 0) + 1
                continue
            if st.value.func.attr == "extend" and isinstance(a0, (ast.List, ast.Tuple)) and not any(isinstance(e, ast.Starred) for e in a0.elts) and n_items <= 4:
                block[i:i + 1] = [loc(ast.Expr(value=ast.Call(func=ast.Attribute(value=copy.deepcopy(st.value.func.value), attr="append", ctx=ast.Load()), args=[e], keywords=[])), st) for e in a0.elts]
                counts["extend-of-display->appends"] = counts.get("extend-of-display->appends", 0) + 1
                continue
        # X += [a, b]  (a list display)  ->  X.append(a) ; X.append(b)
        if isinstance(st, ast.AugAssign) and isinstance(st.op, ast.Add) and isinstance(st.value, ast.List) and 1 <= len(st.value.elts) <= 4 \
                and not any(isinstance(e, ast.Starred) for e in st.value.elts) and _simple_arg(st.target):
            recv = copy.deepcopy(st.target)
            for n_ in ast.walk(recv):
                if hasattr(n_, "ctx"):
                    n_.ctx = ast.Load()
            block[i:i + 1] = [loc(ast.Expr(value=ast.Call(func=ast.Attribute(value=copy.deepcopy(recv), attr="append", ctx=ast.Load()), args=[e], keywords=[])), st) for e in st.value.elts]
            counts["+=display->appends"] = counts.get("+=display->appends", 0) + 1
            continue
        # a, b = x, y   ->   a = x ; b = y     (no starred element, no target read by a later right-hand side)
        if isinstance(st, ast.Assign) and len(st.targets) == 1 and isinstance(st.targets[0], (ast.Tuple, ast.List)) and isinstance(st.value, (ast.Tuple, ast.List)) \
                and len(st.targets[0].elts) == len(st.value.elts) >= 2 and not any(isinstance(e, ast.Starred) for e in st.targets[0].elts + st.value.elts):
            tg = {ast.unparse(e) for e in st.targets[0].elts}
            later_reads = set()
            for e in st.value.elts[1:]:
                later_reads |= {ast.unparse(n) for n in ast.walk(e) if isinstance(n, (ast.Name, ast.Attribute, ast.Subscript))}
            odd = sum(1 for e in st.value.elts for n in ast.walk(e) if isinstance(n, (ast.Await, ast.Yield, ast.YieldFrom, ast.NamedExpr)))
            if not (tg & later_reads) and not odd:
                block[i:i + 1] = [loc(ast.Assign(targets=[t], value=v), st) for t, v in zip(st.targets[0].elts, st.value.elts)]
                counts["tuple-assignment-split"] = counts.get("tuple-assignment-split", 0) + 1
                continue
        # X = [] ; for ...: X.append(E)
        if isinstance(st, ast.Assign) and len(st.targets) == 1 and isinstance(st.targets[0], ast.Name) and isinstance(nxt, ast.For) and not _has_flow(nxt):
            kind = "list" if _is_empty_list(st.value) else "dict" if _is_empty_dict(st.value) else "set" if _is_empty_set(st.value) else None
            got = _loop_nest(nxt, st.targets[0].id, kind) if kind else None
            if got:
                gens, leaf = got
                comp = (ast.ListComp(elt=leaf[0], generators=gens) if kind == "list" else ast.SetComp(elt=leaf[0], generators=gens) if kind == "set"
                        else ast.DictComp(key=leaf[0], value=leaf[1], generators=gens))
                new = ast.Assign(targets=st.targets, value=comp)
                block[i:i + 2] = [loc(new, nxt)]
                counts["loop->comprehension"] = counts.get("loop->comprehension", 0) + 1
                continue
        # X.extend(<generator>) / X.update({comprehension}) as a statement -> explicit loop
        if isinstance(st, ast.Expr) and isinstance(st.value, ast.Call) and isinstance(st.value.func, ast.Attribute) and st.value.func.attr == "extend" \
                and len(st.value.args) == 1 and isinstance(st.value.args[0], (ast.GeneratorExp, ast.ListComp)) and not st.value.keywords:
            c = st.value.args[0]
            leaf = ast.Expr(value=ast.Call(func=ast.Attribute(value=st.value.func.value, attr="append", ctx=ast.Load()), args=[c.elt], keywords=[]))
            body = [leaf]
            for g in reversed(c.generators):
                for t in reversed(g.ifs):
                    body = [ast.If(test=t, body=body, orelse=[])]
                body = [ast.For(target=g.target, iter=g.iter, body=body, orelse=[])]
            block[i:i + 1] = [loc(body[0], st)]
            counts["extend->loop"] = counts.get("extend->loop", 0) + 1
            continue
        # for ..: if C: return True  ; return False
        if isinstance(st, ast.For) and isinstance(nxt, ast.Return) and isinstance(nxt.value, ast.Constant) and isinstance(nxt.value.value, bool) and not st.orelse:
            gens = [ast.comprehension(target=st.target, iter=st.iter, ifs=[], is_async=0)]
            body = st.body
            ok = False
            while len(body) == 1:
                b = body[0]
                if isinstance(b, ast.For) and not b.orelse:
                    gens.append(ast.comprehension(target=b.target, iter=b.iter, ifs=[], is_async=0))
                    body = b.body
                    continue
                if isinstance(b, ast.If) and not b.orelse and len(b.body) == 1 and isinstance(b.body[0], ast.Return) and isinstance(b.body[0].value, ast.Constant) \
                        and b.body[0].value.value is (not nxt.value.value):
                    ok = b.test
                break
            if ok is not False:
                if nxt.value.value is False:
                    call = ast.Call(func=ast.Name(id="any", ctx=ast.Load()), args=[ast.GeneratorExp(elt=ok, generators=gens)], keywords=[])
                else:
                    call = ast.Call(func=ast.Name(id="all", ctx=ast.Load()), args=[ast.GeneratorExp(elt=negate(ok), generators=gens)], keywords=[])
                block[i:i + 2] = [loc(ast.Return(value=call), st)]
                counts["search-loop->any/all"] = counts.get("search-loop->any/all", 0) + 1
                continue
        i += 1


NEGOP = {ast.Eq: ast.NotEq, ast.NotEq: ast.Eq, ast.Is: ast.IsNot, ast.IsNot: ast.Is, ast.In: ast.NotIn, ast.NotIn: ast.In,
         ast.Lt: ast.GtE, ast.GtE: ast.Lt, ast.Gt: ast.LtE, ast.LtE: ast.Gt}


def negate(e):
    if isinstance(e, ast.UnaryOp) and isinstance(e.op, ast.Not):
        return e.operand
    if isinstance(e, ast.Compare) and len(e.ops) == 1 and type(e.ops[0]) in NEGOP:
        return ast.Compare(left=e.left, ops=[NEGOP[type(e.ops[0])]()], comparators=e.comparators)
    return ast.UnaryOp(op=ast.Not(), operand=e)


def _own_attribute_aliases(fn, module_tree, counts):
    """Local names that only stand for an attribute of `self`:
    (1) `x = self.a` with x bound once and `a` stored nowhere in the module outside __init__ methods (so the attribute is the same object for
        the whole call): x is replaced by `self.a`;
    (2) `x = E` directly followed by `self.a = x` (also as one element of a tuple target): the value is stored straight into the attribute
        (`self.a = E`) and the later reads of x read `self.a` -- provided this function stores `self.a` nowhere else and x is bound once."""
    is_method = bool(fn.args.args) and fn.args.args[0].arg == "self"
    params = {a.arg for a in fn.args.posonlyargs + fn.args.args + fn.args.kwonlyargs}
    stored_outside_init = set()
    for f in ast.walk(module_tree):
        if isinstance(f, FUNC) and f.name != "__init__":
            for n in ast.walk(f):
                if isinstance(n, ast.Attribute) and isinstance(n.ctx, (ast.Store, ast.Del)):
                    stored_outside_init.add(n.attr)
    nstores = {}
    for n in ast.walk(fn):
        if isinstance(n, ast.Name) and isinstance(n.ctx, (ast.Store, ast.Del)):
            nstores[n.id] = nstores.get(n.id, 0) + 1
        elif isinstance(n, (ast.Global, ast.Nonlocal)):
            for x in n.names:
                nstores[x] = nstores.get(x, 0) + 2

    def substitute(x, attr_node, skip=()):
        for n in ast.walk(fn):
            for f, v in ast.iter_fields(n):
                if isinstance(v, ast.Name) and v.id == x and isinstance(v.ctx, ast.Load) and v not in skip:
                    setattr(n, f, loc(copy.deepcopy(attr_node), v))
                elif isinstance(v, list):
                    for k, e in enumerate(v):
                        if isinstance(e, ast.Name) and e.id == x and isinstance(e.ctx, ast.Load) and e not in skip:
                            v[k] = loc(copy.deepcopy(attr_node), e)
    for holder, fld, block in blocks_of(fn):
        i = 0
        while i < len(block):
            st = block[i]
            nxt = block[i + 1] if i + 1 < len(block) else None
            i += 1
            # (1)  (also `x = b.a` for another name b that is bound once -- a parameter, a loop variable, a local -- when every read of x follows in this block)
            if isinstance(st, ast.Assign) and len(st.targets) == 1 and isinstance(st.targets[0], ast.Name) and isinstance(st.value, ast.Attribute) \
                    and isinstance(st.value.value, ast.Name) and nstores.get(st.targets[0].id) == 1 and st.value.attr not in stored_outside_init \
                    and not (st.value.attr.startswith("__") and st.value.attr.endswith("__")) \
                    and (is_method and st.value.value.id == "self" and block is fn.body
                         or st.value.value.id != "self" and nstores.get(st.value.value.id, 0) == (0 if st.value.value.id in params else 1)
                         and (st.value.value.id in params or nstores.get(st.value.value.id) == 1)):
                x = st.targets[0].id
                if any(isinstance(g, FUNC + (ast.Lambda,)) and g is not fn and any(isinstance(y, ast.Name) and y.id == x for y in ast.walk(g)) for g in ast.walk(fn)):
                    continue        # captured by a nested function: leave it
                if st.value.value.id != "self":
                    later = {id(y) for s2 in block[i:] for y in ast.walk(s2)}
                    if any(isinstance(y, ast.Name) and y.id == x and isinstance(y.ctx, ast.Load) and id(y) not in later for y in ast.walk(fn)):
                        continue
                substitute(x, st.value)
                block.remove(st)
                i -= 1
                counts["own-attribute-alias-expanded"] = counts.get("own-attribute-alias-expanded", 0) + 1
                continue
            # (2)
            if is_method and isinstance(st, ast.Assign) and len(st.targets) == 1 and isinstance(nxt, ast.Assign) and len(nxt.targets) == 1 and isinstance(nxt.value, ast.Name) \
                    and isinstance(nxt.targets[0], ast.Attribute) and isinstance(nxt.targets[0].value, ast.Name) and nxt.targets[0].value.id == "self":
                x, attr = nxt.value.id, nxt.targets[0]
                tgt = st.targets[0]
                slots = [tgt] if isinstance(tgt, ast.Name) else list(tgt.elts) if isinstance(tgt, ast.Tuple) else []
                hit = [k for k, e in enumerate(slots) if isinstance(e, ast.Name) and e.id == x]
                same_attr_stores = sum(1 for n in ast.walk(fn) if isinstance(n, ast.Attribute) and isinstance(n.ctx, (ast.Store, ast.Del)) and ast.unparse(n) == ast.unparse(attr))
                if len(hit) == 1 and nstores.get(x) == 1 and same_attr_stores == 1 \
                        and not any(isinstance(g, FUNC + (ast.Lambda,)) and g is not fn and any(isinstance(y, ast.Name) and y.id == x for y in ast.walk(g)) for g in ast.walk(fn)):
                    new_t = loc(ast.Attribute(value=ast.Name(id="self", ctx=ast.Load()), attr=attr.attr, ctx=ast.Store()), attr)
                    if isinstance(tgt, ast.Name):
                        st.targets[0] = new_t
                    else:
                        tgt.elts[hit[0]] = new_t
                    block.remove(nxt)
                    load = ast.Attribute(value=ast.Name(id="self", ctx=ast.Load()), attr=attr.attr, ctx=ast.Load())
                    substitute(x, load)
                    counts["value-stored-straight-into-attribute"] = counts.get("value-stored-straight-into-attribute", 0) + 1
                    i -= 1
                    continue


def _global_aliases(fn, counts, module_tree=None):
    """`x = Module.attr.chain` (rooted in a name that is not local to the function), x bound nowhere else: x is just another
    name for that object -- replace x by the chain and drop the assignment.  `x = g` for a function / class / imported name g of the
    module alike."""
    module_callables = set()
    for n in (module_tree.body if module_tree is not None else []):
        if isinstance(n, FUNC + (ast.ClassDef,)):
            module_callables.add(n.name)
        elif isinstance(n, (ast.Import, ast.ImportFrom)):
            module_callables |= {(a.asname or a.name).split(".")[0] for a in n.names}
    local = set()
    for n in ast.walk(fn):
        if isinstance(n, ast.Name) and isinstance(n.ctx, (ast.Store, ast.Del)):
            local.add(n.id)
        elif isinstance(n, ast.arg):
            local.add(n.arg)
        elif isinstance(n, FUNC + (ast.ClassDef,)) and n is not fn:
            local.add(n.name)
        elif isinstance(n, (ast.Import, ast.ImportFrom)):
            local |= {(a.asname or a.name).split(".")[0] for a in n.names}
    stores = {}
    for n in ast.walk(fn):
        if isinstance(n, ast.Name) and isinstance(n.ctx, (ast.Store, ast.Del)):
            stores[n.id] = stores.get(n.id, 0) + 1
        elif isinstance(n, (ast.Global, ast.Nonlocal)):
            for x in n.names:
                stores[x] = stores.get(x, 0) + 2
    for holder, fld, block in blocks_of(fn):
        for st in list(block):
            if not (isinstance(st, ast.Assign) and len(st.targets) == 1 and isinstance(st.targets[0], ast.Name) and
                    (isinstance(st.value, ast.Attribute) or isinstance(st.value, ast.Name) and st.value.id in module_callables and st.value.id != st.targets[0].id)):
                continue
            root = st.value
            while isinstance(root, ast.Attribute):
                root = root.value
            if not (isinstance(root, ast.Name) and root.id not in local and root.id not in ("self", "cls")):
                continue
            x = st.targets[0].id
            if stores.get(x) != 1:
                continue
            # the chain must not be assigned to in this function
            chain = ast.unparse(st.value)
            if any(isinstance(n, (ast.Attribute, ast.Name)) and isinstance(getattr(n, "ctx", None), (ast.Store, ast.Del)) and ast.unparse(n) == chain for n in ast.walk(fn)):
                continue
            for n in ast.walk(fn):
                for f, v in ast.iter_fields(n):
                    if isinstance(v, ast.Name) and v.id == x and isinstance(v.ctx, ast.Load):
                        setattr(n, f, loc(copy.deepcopy(st.value), v))
                    elif isinstance(v, list):
                        for k, e in enumerate(v):
                            if isinstance(e, ast.Name) and e.id == x and isinstance(e.ctx, ast.Load):
                                v[k] = loc(copy.deepcopy(st.value), e)
            block.remove(st)
            if not block:
                block.append(loc(ast.Pass(), st))
            counts["alias-of-global-object"] = counts.get("alias-of-global-object", 0) + 1


def _merge_accumulators(fn, counts):
    """`L = []` ... `L.append(..)` / `L.extend(..)` / `L += ..` ... `X.extend(L)` with no other use of L and no use of X in
    between: the items are added to X directly (what remains of a list-returning helper after inlining)."""
    for holder, fld, block in blocks_of(fn):
        i = 0
        while i < len(block):
            st = block[i]
            i += 1
            if not (isinstance(st, ast.Assign) and len(st.targets) == 1 and isinstance(st.targets[0], ast.Name) and _is_empty_list(st.value)):
                continue
            L = st.targets[0].id
            fin = None
            for j in range(i, len(block)):
                e = block[j]
                if isinstance(e, ast.Expr) and isinstance(e.value, ast.Call) and isinstance(e.value.func, ast.Attribute) and e.value.func.attr == "extend" \
                        and len(e.value.args) == 1 and isinstance(e.value.args[0], ast.Name) and e.value.args[0].id == L and _simple_arg(e.value.func.value):
                    fin = j
                    break
            if fin is None:
                continue
            X = e.value.func.value
            xtext = ast.unparse(X)
            ok = True
            uses = 0
            for n in ast.walk(fn):
                if isinstance(n, ast.Name) and n.id == L:
                    uses += 1
            inside = 0
            for s2 in block[i:fin]:
                for n in ast.walk(s2):
                    if isinstance(n, ast.Name) and n.id == L:
                        inside += 1
                        par_ok = False
                        # allowed: receiver of append/extend, target of +=
                        for m in ast.walk(s2):
                            if isinstance(m, ast.Call) and isinstance(m.func, ast.Attribute) and m.func.value is n and m.func.attr in ("append", "extend"):
                                par_ok = True
                            if isinstance(m, ast.AugAssign) and m.target is n and isinstance(m.op, ast.Add):
                                par_ok = True
                        ok = ok and par_ok
                    if isinstance(n, (ast.Name, ast.Attribute)) and ast.unparse(n) == xtext:
                        ok = False
            if not ok or uses != inside + 2:
                continue
            for s2 in block[i:fin]:
                for n in ast.walk(s2):
                    for f, v in ast.iter_fields(n):
                        if isinstance(v, ast.Name) and v.id == L:
                            new = copy.deepcopy(X)
                            if isinstance(v.ctx, ast.Store):
                                for q in ast.walk(new):
                                    if hasattr(q, "ctx") and q is new:
                                        q.ctx = ast.Store()
                            setattr(n, f, loc(new, v))
            del block[fin]
            block.remove(st)
            counts["accumulator-merged"] = counts.get("accumulator-merged", 0) + 1
            i = 0


def _unroll_literal_comprehensions(fn, counts):
    """{k: E for k, v in ((a, b), (c, d))} and [E for x in (a, b)] over a short literal sequence are the displays they denote."""
    class U(ast.NodeTransformer):
        def visit_DictComp(self, n):
            self.generic_visit(n)
            items = self._items(n)
            if items is None:
                return n
            counts["literal-comprehension-unrolled"] = counts.get("literal-comprehension-unrolled", 0) + 1
            return loc(ast.Dict(keys=[_Subst(m).visit(copy.deepcopy(n.key)) for m in items], values=[_Subst(m).visit(copy.deepcopy(n.value)) for m in items]), n)

        def visit_ListComp(self, n):
            self.generic_visit(n)
            items = self._items(n)
            if items is None:
                return n
            counts["literal-comprehension-unrolled"] = counts.get("literal-comprehension-unrolled", 0) + 1
            return loc(ast.List(elts=[_Subst(m).visit(copy.deepcopy(n.elt)) for m in items], ctx=ast.Load()), n)

        @staticmethod
        def _items(n):
            if len(n.generators) != 1 or n.generators[0].ifs or n.generators[0].is_async:
                return None
            g = n.generators[0]
            if not isinstance(g.iter, (ast.Tuple, ast.List)) or not (1 <= len(g.iter.elts) <= 8) or any(isinstance(e, ast.Starred) for e in g.iter.elts):
                return None
            out = []
            for e in g.iter.elts:
                if isinstance(g.target, ast.Name):
                    if not _simple_arg(e):
                        return None
                    out.append({g.target.id: e})
                elif isinstance(g.target, ast.Tuple) and all(isinstance(t, ast.Name) for t in g.target.elts) and isinstance(e, (ast.Tuple, ast.List)) \
                        and len(e.elts) == len(g.target.elts) and all(_simple_arg(x) for x in e.elts):
                    out.append({t.id: x for t, x in zip(g.target.elts, e.elts)})
                else:
                    return None
            return out
    U().visit(fn)


def _nested_defs_as_lambdas(fn, known_nested, counts):
    """A nested `def g(args): return E` that the reference does not know, referred to exactly once, as a value, later in the same block
    (nothing in between rebinds a name its defaults read) is the lambda written at that place."""
    for holder, fld, block in blocks_of(fn):
        i = 0
        while i < len(block):
            g = block[i]
            i += 1
            if not (isinstance(g, ast.FunctionDef) and g.name not in known_nested and not g.decorator_list and len(_strip_doc(g.body)) == 1
                    and isinstance(_strip_doc(g.body)[0], ast.Return) and _strip_doc(g.body)[0].value is not None):
                continue
            if any(isinstance(n, (ast.Yield, ast.YieldFrom, ast.Await)) for n in ast.walk(g)) or g.args.posonlyargs:
                continue
            uses = [n for n in ast.walk(fn) if isinstance(n, ast.Name) and n.id == g.name]
            if len(uses) != 1 or not isinstance(uses[0].ctx, ast.Load):
                continue
            use = uses[0]
            where = next((k for k in range(i, len(block)) if any(n is use for n in ast.walk(block[k]))), None)
            if where is None or isinstance(getattr(use, "_parent_call_func", None), ast.Call):
                continue
            if any(isinstance(c, ast.Call) and c.func is use for c in ast.walk(block[where])):
                continue
            reads = {n.id for d in g.args.defaults + [d for d in g.args.kw_defaults if d is not None] for n in ast.walk(d) if isinstance(n, ast.Name)}
            if any(x in reads for b in block[i:where] for x in _stored_names(b)):
                continue
            lam = loc(ast.Lambda(args=g.args, body=_strip_doc(g.body)[0].value), use)
            if not _replace_node(block[where], use, lam):
                continue
            block.remove(g)
            i -= 1
            counts["nested-def->lambda"] = counts.get("nested-def->lambda", 0) + 1


def _split_block_local_names(fn, counts):
    """A local that is assigned in several blocks, each assignment being read only by later statements of its own block before the next
    assignment there (`end = ..; use(end)` in the if-branch, the same again in the else-branch), is several independent temporaries under
    one name: the second, third ... get names of their own (`end__2`), after which each is an ordinary once-assigned temporary."""
    params = {a.arg for a in fn.args.posonlyargs + fn.args.args + fn.args.kwonlyargs} | {x.arg for x in (fn.args.vararg, fn.args.kwarg) if x}
    stores = {}
    for n in _walk_same_scope_fn(fn):
        if isinstance(n, ast.Name) and isinstance(n.ctx, (ast.Store, ast.Del)):
            stores.setdefault(n.id, []).append(n)
    nested_use = {n.id for g in ast.walk(fn) if isinstance(g, FUNC + (ast.Lambda,)) and g is not fn for n in ast.walk(g) if isinstance(n, ast.Name)}
    blocks = list(blocks_of(fn))
    for name, sts in stores.items():
        if len(sts) < 2 or name in params or name in nested_use:
            continue
        # every store must be the sole target of a plain assignment that is a direct statement of some block
        ranges = []
        ok = True
        for holder, fld, block in blocks:
            for i, st in enumerate(block):
                if isinstance(st, ast.Assign) and len(st.targets) == 1 and isinstance(st.targets[0], ast.Name) and st.targets[0].id == name:
                    if any(isinstance(n, ast.Name) and n.id == name for n in ast.walk(st.value)):
                        ok = False
                    j = i + 1
                    reach = []
                    while j < len(block):
                        nx = block[j]
                        if any(isinstance(n, ast.Name) and n.id == name and isinstance(n.ctx, (ast.Store, ast.Del)) for n in ast.walk(nx)):
                            # a redefinition ends the range; loads inside that same statement (before the store) make it ambiguous
                            if not (isinstance(nx, ast.Assign) and len(nx.targets) == 1 and isinstance(nx.targets[0], ast.Name) and nx.targets[0].id == name):
                                ok = False
                            break
                        reach.append(nx)
                        j += 1
                    ranges.append((st, reach))
        if not ok or len(ranges) != len(sts):
            continue
        covered = {id(n) for st, reach in ranges for r in reach for n in ast.walk(r) if isinstance(n, ast.Name) and n.id == name and isinstance(n.ctx, ast.Load)}
        loads = [n for n in _walk_same_scope_fn(fn) if isinstance(n, ast.Name) and n.id == name and isinstance(n.ctx, ast.Load)]
        if any(id(n) not in covered for n in loads):
            continue
        # a load must be reached by one range only (ranges nested in one another would both claim it)
        claim = {}
        for k, (st, reach) in enumerate(ranges):
            for r in reach:
                for n in ast.walk(r):
                    if isinstance(n, ast.Name) and n.id == name and isinstance(n.ctx, ast.Load):
                        claim.setdefault(id(n), []).append(k)
        if any(len(v) != 1 for v in claim.values()):
            continue
        for k, (st, reach) in enumerate(ranges):
            if k == 0:
                continue
            new = f"{name}__{k + 1}"
            st.targets[0].id = new
            for r in reach:
                for n in ast.walk(r):
                    if isinstance(n, ast.Name) and n.id == name and isinstance(n.ctx, ast.Load):
                        n.id = new
        counts["block-local-name-split"] = counts.get("block-local-name-split", 0) + 1


def _star_displays(fn, counts):
    """f(*(a, b)) is f(a, b); f(*((a, b) if c else (a,))) is f(a, b) if c else f(a) (the callee expression is a plain name or attribute chain)."""
    class S(ast.NodeTransformer):
        def visit_Call(self, c):
            self.generic_visit(c)
            if len(c.args) == 1 and isinstance(c.args[0], ast.Starred) and not c.keywords and _simple_arg(c.func):
                v = c.args[0].value
                if isinstance(v, (ast.Tuple, ast.List)) and not any(isinstance(e, ast.Starred) for e in v.elts):
                    counts["f(*display)"] = counts.get("f(*display)", 0) + 1
                    return loc(ast.Call(func=c.func, args=list(v.elts), keywords=[]), c)
                if isinstance(v, ast.IfExp) and all(isinstance(x, (ast.Tuple, ast.List)) and not any(isinstance(e, ast.Starred) for e in x.elts) for x in (v.body, v.orelse)):
                    counts["f(*display)"] = counts.get("f(*display)", 0) + 1
                    return loc(ast.IfExp(test=v.test, body=ast.Call(func=copy.deepcopy(c.func), args=list(v.body.elts), keywords=[]),
                                         orelse=ast.Call(func=copy.deepcopy(c.func), args=list(v.orelse.elts), keywords=[])), c)
            return c
    S().visit(fn)


_PURE_FUNCS = {"len", "isinstance", "issubclass", "getattr", "hasattr", "str", "repr", "tuple", "list", "dict", "set", "frozenset", "sorted", "min", "max", "any", "all",
               "sum", "type", "id", "bool", "int", "float", "callable", "iter", "enumerate", "zip", "reversed", "range", "format", "abs", "hash", "ord", "chr"}
_PURE_METHODS = {"get", "items", "keys", "values", "copy", "startswith", "endswith", "split", "rsplit", "partition", "join", "format", "strip", "lstrip", "rstrip",
                 "lower", "upper", "replace", "index", "count", "find", "isidentifier", "isdigit", "union", "intersection", "difference", "issubset", "issuperset"}


def _pure_call(c):
    """A call that only reads (builtins and the reading methods of str / dict / set / list): other expressions may be moved across it."""
    f = c.func
    return isinstance(f, ast.Name) and f.id in _PURE_FUNCS or isinstance(f, ast.Attribute) and f.attr in _PURE_METHODS


def _single_use_temps(fn, counts):
    """`t = E` directly followed by the only use of t (t bound nowhere else): substitute E for t."""
    changed = True
    while changed:
        changed = False
        stores, loads = {}, {}
        for n in ast.walk(fn):
            if isinstance(n, ast.Name):
                (stores if isinstance(n.ctx, (ast.Store, ast.Del)) else loads).setdefault(n.id, []).append(n)
            elif isinstance(n, ast.arg):
                stores.setdefault(n.arg, []).append(n)
            elif isinstance(n, (ast.Global, ast.Nonlocal)):
                for x in n.names:
                    stores.setdefault(x, []).extend([n, n])
            elif isinstance(n, ast.ExceptHandler) and n.name:
                stores.setdefault(n.name, []).append(n)
            elif isinstance(n, FUNC + (ast.ClassDef,)) and n is not fn:
                stores.setdefault(n.name, []).append(n)
            elif isinstance(n, (ast.Import, ast.ImportFrom)):
                for a in n.names:
                    stores.setdefault((a.asname or a.name).split(".")[0], []).append(n)
        for holder, fld, block in blocks_of(fn):
            for i in range(len(block) - 1):
                st, nxt = block[i], block[i + 1]
                if not (isinstance(st, ast.Assign) and len(st.targets) == 1 and isinstance(st.targets[0], ast.Name)):
                    continue
                t = st.targets[0].id
                if len(stores.get(t, [])) != 1 or len(loads.get(t, [])) != 1:
                    continue
                use = loads[t][0]
                if isinstance(nxt, (ast.While, ast.Try, ast.ClassDef, ast.Match) + FUNC):
                    continue
                # the use must be in the part of nxt evaluated exactly once and first: its header expression
                if isinstance(nxt, (ast.For, ast.AsyncFor)):
                    header = [nxt.iter]
                elif isinstance(nxt, ast.If):
                    header = [nxt.test]
                elif isinstance(nxt, (ast.With, ast.AsyncWith)):
                    header = [nxt.items[0].context_expr]
                else:
                    header = [nxt]
                where = None
                for hd in header:
                    for n in walk_shallow(hd):
                        if n is use:
                            where = hd
                if where is None:
                    continue
                # not under a comprehension/boolean/conditional (evaluated 0 or many times)
                bad = False
                path = _path_to(where, use)
                for a in path:
                    if isinstance(a, (ast.ListComp, ast.SetComp, ast.DictComp, ast.GeneratorExp)) and any(x is use for x in ast.walk(a.generators[0].iter)):
                        continue        # the first iterable of a comprehension is evaluated once, where the comprehension stands
                    if isinstance(a, (ast.ListComp, ast.SetComp, ast.DictComp, ast.GeneratorExp, ast.IfExp, ast.BoolOp, ast.Lambda)):
                        bad = True
                if bad:
                    continue
                # a call in the next statement that is evaluated before the use would be reordered with E's calls
                # (the same holds for an E that can fail or iterate -- a comprehension, an item access, arithmetic: moving it behind a call changes what has
                # already happened when it raises; plain names and attribute chains are moved freely)
                has_call = any(isinstance(n, (ast.Call, ast.Await, ast.Yield, ast.ListComp, ast.SetComp, ast.DictComp, ast.GeneratorExp, ast.Subscript, ast.BinOp))
                               for n in ast.walk(st.value))
                if has_call:
                    upos = (use.lineno, use.col_offset)
                    early = False
                    for n in ast.walk(where):
                        if isinstance(n, ast.Call) and not any(x is use for x in ast.walk(n)):
                            epos = (getattr(n, "end_lineno", n.lineno), getattr(n, "end_col_offset", 0))
                            only_reads = _pure_call(n) and not any(isinstance(x, (ast.Call, ast.Await, ast.Yield)) for x in ast.walk(st.value))
                            if epos <= upos and not getattr(n, "_synth", False) and not only_reads:
                                early = True
                    if early:
                        continue
                # augmented assignment targets etc. are stores, so `use` is a plain load: replace it
                _replace_node(nxt, use, st.value)
                del block[i]
                counts["single-use-temp"] = counts.get("single-use-temp", 0) + 1
                changed = True
                break
            if changed:
                break


def _path_to(root, target):
    path = []

    def rec(n):
        if n is target:
            return True
        for c in ast.iter_child_nodes(n):
            if rec(c):
                path.append(n)
                return True
        return False
    rec(root)
    return path


def _replace_node(root, old, new):
    for n in ast.walk(root):
        for fld, val in ast.iter_fields(n):
            if val is old:
                setattr(n, fld, new)
                return True
            if isinstance(val, list):
                for k, x in enumerate(val):
                    if x is old:
                        val[k] = new
                        return True
    return False


# ------------------------------------------------------------------------------------------------ 3. local names
class Scope:
    def __init__(self, node, kind, parent):
        self.node, self.kind, self.parent = node, kind, parent
        self.depth = 0 if parent is None else parent.depth + (0 if kind == "class" else 1)
        self.bind = {}          # name -> [descriptor, ...]   (descriptor: tuple whose last item may be an expr node to be shaped)
        self.first = {}         # name -> order of first binding
        self.globals = set()
        self.nonlocals = set()
        self.fixed = set()      # names that must not be renamed (imports, keyword-only parameters, ...)
        self.occ = []           # (node, attribute name holding the identifier)


class Binder(ast.NodeVisitor):
    """Scopes, bindings (with the shape of what is bound) and resolved occurrences of one top-level function."""

    def __init__(self, fn):
        self.counter = 0
        self.scopes = []
        self.root = self.new_scope(fn, "function", None)
        self.cur = self.root
        self.function(fn)

    def new_scope(self, node, kind, parent):
        s = Scope(node, kind, parent)
        self.scopes.append(s)
        return s

    def binding(self, name, desc, node=None, attr="id", scope=None):
        s = scope or self.cur
        if s.kind == "comp" and desc[0] == "walrus":
            while s.kind == "comp":
                s = s.parent
        s.bind.setdefault(name, []).append(desc)
        self.counter += 1
        s.first.setdefault(name, self.counter)
        if node is not None:
            s.occ.append((node, attr, name))

    def function(self, fn):
        a = fn.args
        # defaults and annotations are evaluated in the enclosing scope: visited by the caller
        for i, x in enumerate(a.posonlyargs + a.args):
            self.binding(x.arg, ("param", i), x, "arg")
        if a.vararg:
            self.binding(a.vararg.arg, ("vararg",), a.vararg, "arg")
        if a.kwarg:
            self.binding(a.kwarg.arg, ("kwarg",), a.kwarg, "arg")
        for x in a.kwonlyargs:
            self.binding(x.arg, ("kwonly", x.arg), x, "arg")
            self.cur.fixed.add(x.arg)
        body = fn.body if isinstance(fn.body, list) else [fn.body]
        for st in body:
            self.visit(st)

    def enter(self, node, kind):
        s = self.new_scope(node, kind, self.cur)
        self.cur = s
        return s

    def leave(self):
        self.cur = self.cur.parent

    # ---- definitions
    def visit_FunctionDef(self, n):
        for d in n.decorator_list:
            self.visit(d)
        for d in n.args.defaults + [x for x in n.args.kw_defaults if x is not None]:
            self.visit(d)
        self.binding(n.name, ("def", len(n.args.args)), n, "name")
        self.enter(n, "function")
        self.function(n)
        self.leave()
    visit_AsyncFunctionDef = visit_FunctionDef

    def visit_Lambda(self, n):
        for d in n.args.defaults + [x for x in n.args.kw_defaults if x is not None]:
            self.visit(d)
        self.enter(n, "lambda")
        self.function(n)
        self.leave()

    def visit_ClassDef(self, n):
        for d in n.decorator_list + n.bases:
            self.visit(d)
        self.binding(n.name, ("class",), n, "name")
        self.cur.fixed.add(n.name)
        self.enter(n, "class")
        for st in n.body:
            self.visit(st)
        self.leave()

    def comp(self, n, elts):
        gens = n.generators
        self.visit(gens[0].iter)
        self.enter(n, "comp")
        for k, g in enumerate(gens):
            if k:
                self.visit(g.iter)
            self.target(g.target, "comp", g.iter)
            for c in g.ifs:
                self.visit(c)
        for e in elts:
            self.visit(e)
        self.leave()

    def visit_ListComp(self, n):
        self.comp(n, [n.elt])
    visit_SetComp = visit_GeneratorExp = visit_ListComp

    def visit_DictComp(self, n):
        self.comp(n, [n.key, n.value])

    # ---- binding statements
    def target(self, t, kind, value, path=()):
        if isinstance(t, ast.Name):
            self.binding(t.id, (kind, path, value), t)
        elif isinstance(t, (ast.Tuple, ast.List)):
            for i, e in enumerate(t.elts):
                self.target(e, kind, value, path + (i,))
        elif isinstance(t, ast.Starred):
            self.target(t.value, kind, value, path + ("*",))
        else:
            self.visit(t)

    def visit_Assign(self, n):
        self.visit(n.value)
        for t in n.targets:
            self.target(t, "assign", n.value)

    def visit_AnnAssign(self, n):
        if n.value is not None:
            self.visit(n.value)
        self.visit(n.annotation)
        self.target(n.target, "assign", n.value)

    def visit_AugAssign(self, n):
        self.visit(n.value)
        if isinstance(n.target, ast.Name):
            self.binding(n.target.id, ("aug", type(n.op).__name__, n.value), n.target)
        else:
            self.visit(n.target)

    def visit_For(self, n):
        self.visit(n.iter)
        self.target(n.target, "for", n.iter)
        for st in n.body + n.orelse:
            self.visit(st)
    visit_AsyncFor = visit_For

    def visit_With(self, n):
        for it in n.items:
            self.visit(it.context_expr)
            if it.optional_vars is not None:
                self.target(it.optional_vars, "with", it.context_expr)
        for st in n.body:
            self.visit(st)
    visit_AsyncWith = visit_With

    def visit_ExceptHandler(self, n):
        if n.type is not None:
            self.visit(n.type)
        if n.name:
            self.binding(n.name, ("except", n.type), n, "name")
        for st in n.body:
            self.visit(st)

    def visit_NamedExpr(self, n):
        self.visit(n.value)
        self.binding(n.target.id, ("walrus", n.value), n.target)

    def visit_Import(self, n):
        for a in n.names:
            nm = (a.asname or a.name).split(".")[0]
            self.binding(nm, ("import", a.name))
            self.cur.fixed.add(nm)
    visit_ImportFrom = visit_Import

    def visit_Global(self, n):
        self.cur.globals.update(n.names)

    def visit_Nonlocal(self, n):
        self.cur.nonlocals.update(n.names)

    def visit_MatchAs(self, n):
        if n.pattern is not None:
            self.visit(n.pattern)
        if n.name:
            self.binding(n.name, ("match",), n, "name")

    def visit_MatchStar(self, n):
        if n.name:
            self.binding(n.name, ("match",), n, "name")

    def visit_MatchMapping(self, n):
        self.generic_visit(n)
        if n.rest:
            self.binding(n.rest, ("match",), n, "rest")

    def visit_Name(self, n):
        if isinstance(n.ctx, ast.Load):
            self.cur.occ.append((n, "id", n.id))
        else:       # Del, or a Store reached outside the binding statements handled above
            self.binding(n.id, ("store",), n)

    # ---- resolution
    def resolve(self, scope, name):
        s = scope
        first = True
        while s is not None:
            if name in s.globals:
                return None
            if name in s.bind and name not in s.nonlocals and (s.kind != "class" or first):
                return s
            first = False
            s = s.parent
        return None


def _shape(desc, bound):
    out = []
    for x in desc:
        if isinstance(x, ast.AST):
            touched = []
            for n in ast.walk(x):
                if isinstance(n, ast.Name) and n.id in bound:
                    touched.append((n, "id", n.id))
                    n.id = "_"
                elif isinstance(n, ast.arg) and n.arg in bound:
                    touched.append((n, "arg", n.arg))
                    n.arg = "_"
            try:
                s = " ".join(ast.unparse(x).split())
            except Exception:
                s = type(x).__name__
            for n, a, v in touched:
                setattr(n, a, v)
            out.append(s[:160])
        elif x is None:
            out.append("None")
        elif isinstance(x, tuple):
            out.append(".".join(str(i) for i in x))
        else:
            out.append(str(x))
    return "|".join(out)


def local_table(fn):
    """[(scope, name, kind/depth key, [shapes], order)] for every renameable binding of the top-level function fn."""
    b = Binder(fn)
    bound = set()
    for s in b.scopes:
        if s.kind != "class":
            bound |= set(s.bind)
    rows = []
    for s in b.scopes:
        if s.kind == "class":
            continue
        for name, descs in s.bind.items():
            if name in s.globals or name in s.nonlocals or name in s.fixed:
                continue
            shapes = sorted(_shape(d, bound) for d in descs)
            rows.append({"scope": s, "name": name, "key": f"{s.kind}{s.depth}", "sig": shapes, "order": s.first[name]})
    rows.sort(key=lambda r: r["order"])
    return b, rows


def roles_of(fn):
    _, rows = local_table(fn)
    return [[r["name"], r["key"], r["sig"]] for r in rows]


def rename_locals(fn, roles, keyword_names=frozenset()):
    """Rename the bindings of fn to the reference role names.  Returns {old: new} actually applied (by text, for the record)."""
    b, rows = local_table(fn)
    free = set()       # names that occur unresolved (globals, builtins) anywhere in the tree: never a rename target
    for s in b.scopes:
        for node, attr, name in s.occ:
            if isinstance(node, ast.Name) and isinstance(node.ctx, ast.Load) and b.resolve(s, name) is None:
                free.add(name)
    roles = [{"name": r[0], "key": r[1], "sig": r[2], "i": i} for i, r in enumerate(roles)]
    pairs = {}      # row index -> role
    rleft = list(roles)
    cleft = list(range(len(rows)))
    # identity first: same name, same kind of scope
    for ci in list(cleft):
        for r in rleft:
            if r["name"] == rows[ci]["name"] and r["key"] == rows[ci]["key"]:
                pairs[ci] = r
                rleft.remove(r)
                cleft.remove(ci)
                break
    # exact binding shape, in order
    for ci in list(cleft):
        for r in rleft:
            if r["key"] == rows[ci]["key"] and r["sig"] == rows[ci]["sig"]:
                pairs[ci] = r
                rleft.remove(r)
                cleft.remove(ci)
                break
    # overlapping binding shapes, best first
    cands = []
    for ci in cleft:
        for r in rleft:
            if r["key"] != rows[ci]["key"]:
                continue
            a, c = set(r["sig"]), set(rows[ci]["sig"])
            inter = len(a & c)
            kinds = len({x.split("|")[0] for x in a} & {x.split("|")[0] for x in c})
            if inter or kinds:
                cands.append((-(inter / len(a | c)), -kinds, abs(r["i"] - ci), ci, r["i"], r))
    used_r, used_c = set(), set()
    for score, _, _, ci, ri, r in sorted(cands, key=lambda t: t[:5]):
        if ci in used_c or ri in used_r:
            continue
        used_c.add(ci)
        used_r.add(ri)
        pairs[ci] = r
    # build the map on resolved bindings
    staying = {rows[ci]["name"] for ci in range(len(rows)) if ci not in pairs or pairs[ci]["name"] == rows[ci]["name"]}
    for s in b.scopes:      # names bound but not renameable (class scopes, fixed, global declarations)
        for name in s.bind:
            if s.kind == "class" or name in s.fixed or name in s.globals or name in s.nonlocals:
                staying.add(name)
    mapping = {}
    targets = {}       # new name -> scopes using it

    def related(a, c):
        x = a
        while x is not None:
            if x is c:
                return True
            x = x.parent
        x = c
        while x is not None:
            if x is a:
                return True
            x = x.parent
        return False
    for ci, r in sorted(pairs.items()):
        row = rows[ci]
        old, new = row["name"], r["name"]
        if old == new:
            continue
        is_param = any(x.startswith(("param|", "vararg", "kwarg")) for x in row["sig"])
        # a parameter that callers may name as a keyword keeps its name -- unless every call site of the (private) function was made positional
        kw_exposed = is_param and old in keyword_names and not getattr(row["scope"].node, "_calls_positional", False)
        if new in free or new in staying or kw_exposed or any(related(row["scope"], s2) for s2 in targets.get(new, [])):
            continue
        mapping[(id(row["scope"]), old)] = new
        targets.setdefault(new, []).append(row["scope"])
    if not mapping:
        return {}
    applied = {}
    for s in b.scopes:
        for node, attr, name in s.occ:
            owner = b.resolve(s, name)
            if owner is None:
                continue
            new = mapping.get((id(owner), name))
            if new is not None:
                setattr(node, attr, new)
                applied[name] = new
    return applied


# ------------------------------------------------------------------------------------------------ driver
def top_functions(tree, modname):
    """(qual, node) of module-level functions and methods (also those under module-level if/try), with #n suffixes like the index."""
    seen = {}

    def rec(body, prefix):
        for n in body:
            if isinstance(n, FUNC):
                q = f"{prefix}.{n.name}"
                seen[q] = seen.get(q, 0) + 1
                yield (q if seen[q] == 1 else f"{q}#{seen[q]}"), n
            elif isinstance(n, ast.ClassDef):
                yield from rec(n.body, f"{prefix}.{n.name}")
            elif isinstance(n, (ast.If, ast.Try, ast.With)):
                for fld in ("body", "orelse", "finalbody"):
                    yield from rec(getattr(n, fld, []) or [], prefix)
                for h in getattr(n, "handlers", []):
                    yield from rec(h.body, prefix)
    yield from rec(tree.body, modname)


def _pair_tables_as_dicts(tree, stats):
    """A private table written as a tuple of (literal key, value) pairs that is only ever read through `dict(<table>)` is the dict display
    (and each `dict(<table>)` the table itself)."""
    tables = {}
    for holder in [tree] + [c for c in ast.walk(tree) if isinstance(c, ast.ClassDef)]:
        for st in holder.body:
            if isinstance(st, ast.Assign) and len(st.targets) == 1 and isinstance(st.targets[0], ast.Name) and st.targets[0].id.startswith("_") \
                    and isinstance(st.value, ast.Tuple) and st.value.elts and all(isinstance(e, ast.Tuple) and len(e.elts) == 2 and isinstance(e.elts[0], ast.Constant) for e in st.value.elts):
                tables.setdefault(st.targets[0].id, []).append(st)
    for name, defs in tables.items():
        refs = [n for n in ast.walk(tree) if (isinstance(n, ast.Name) and n.id == name or isinstance(n, ast.Attribute) and n.attr == name) and isinstance(n.ctx, ast.Load)]
        wraps = [c for c in ast.walk(tree) if isinstance(c, ast.Call) and isinstance(c.func, ast.Name) and c.func.id == "dict" and len(c.args) == 1 and not c.keywords
                 and any(c.args[0] is r for r in refs)]
        if not refs or len(wraps) != len(refs):
            continue
        for st in defs:
            st.value = loc(ast.Dict(keys=[e.elts[0] for e in st.value.elts], values=[e.elts[1] for e in st.value.elts]), st.value)
        for c in wraps:
            _replace_node(tree, c, c.args[0])
        stats["pair-table->dict"] = stats.get("pair-table->dict", 0) + 1


def _match_as_if(tree, stats):
    """`match S:` whose cases are built from literal / singleton / bare class / capture / wildcard / or-patterns (plus guards) is the
    if / elif chain of `S == v`, `S is v`, `isinstance(S, C)` tests in the same order (a subject that is not a plain name or attribute
    chain is bound to a temporary first; a capture is an assignment at the head of the case body).  Other patterns are left alone."""
    def pure(e):
        return isinstance(e, ast.Name) or isinstance(e, ast.Attribute) and pure(e.value)

    def cond(p, subj):
        """-> (test or None for 'always', [bindings]) or raise ValueError"""
        S = lambda: copy.deepcopy(subj)
        if isinstance(p, ast.MatchValue):
            return ast.Compare(left=S(), ops=[ast.Eq()], comparators=[p.value]), []
        if isinstance(p, ast.MatchSingleton):
            return ast.Compare(left=S(), ops=[ast.Is()], comparators=[ast.Constant(value=p.value)]), []
        if isinstance(p, ast.MatchClass) and not p.patterns and not p.kwd_attrs:
            return ast.Call(func=ast.Name(id="isinstance", ctx=ast.Load()), args=[S(), p.cls], keywords=[]), []
        if isinstance(p, ast.MatchAs):
            binds = [ast.Assign(targets=[ast.Name(id=p.name, ctx=ast.Store())], value=S(), lineno=getattr(p, "lineno", 0))] if p.name else []
            if p.pattern is None:
                return None, binds
            t, b = cond(p.pattern, subj)
            return t, b + binds
        if isinstance(p, ast.MatchOr):
            parts = [cond(q, subj) for q in p.patterns]
            if any(b for t, b in parts):
                raise ValueError
            if any(t is None for t, b in parts):
                return None, []
            return ast.BoolOp(op=ast.Or(), values=[t for t, b in parts]), []
        raise ValueError

    class T(ast.NodeTransformer):
        def visit_Match(self, node):
            self.generic_visit(node)
            pre = []
            subj = node.subject
            if not pure(subj):
                pre = [ast.Assign(targets=[ast.Name(id="_subject", ctx=ast.Store())], value=subj, lineno=node.lineno)]
                subj = ast.Name(id="_subject", ctx=ast.Load())
            try:
                arms = []
                for case in node.cases:
                    t, binds = cond(case.pattern, subj)
                    if case.guard is not None:
                        g = case.guard
                        if binds:                # the guard may read the capture: it reads the subject there
                            names = {b.targets[0].id for b in binds}

                            class Sub(ast.NodeTransformer):
                                def visit_Name(self, n):
                                    return copy.deepcopy(subj) if n.id in names and isinstance(n.ctx, ast.Load) else n
                            g = Sub().visit(copy.deepcopy(g))
                        t = g if t is None else ast.BoolOp(op=ast.And(), values=[t, g])
                    arms.append((t, binds + case.body))
            except ValueError:
                return node
            out = None
            for t, body in reversed(arms):
                if t is None:
                    out = body
                else:
                    out = [ast.copy_location(ast.If(test=t, body=body, orelse=out or []), node)]
            stats["match-as-if"] = stats.get("match-as-if", 0) + 1
            res = pre + (out or [])
            for r in res:
                ast.fix_missing_locations(ast.copy_location(r, node) if not hasattr(r, "lineno") else r)
            return res or ast.copy_location(ast.Pass(), node)

        def visit_With(self, node):
            # `with suppress(E, ..): body` is `try: body / except (E, ..): pass`
            self.generic_visit(node)
            if len(node.items) == 1 and node.items[0].optional_vars is None:
                c = node.items[0].context_expr
                if isinstance(c, ast.Call) and ast.unparse(c.func) in ("suppress", "contextlib.suppress") and c.args and not c.keywords \
                        and not any(isinstance(a, ast.Starred) for a in c.args):
                    typ = c.args[0] if len(c.args) == 1 else ast.Tuple(elts=list(c.args), ctx=ast.Load())
                    h = ast.ExceptHandler(type=typ, name=None, body=[ast.copy_location(ast.Pass(), node)])
                    stats["suppress-as-try"] = stats.get("suppress-as-try", 0) + 1
                    return ast.fix_missing_locations(ast.copy_location(ast.Try(body=node.body, handlers=[ast.copy_location(h, node)], orelse=[], finalbody=[]), node))
            return node

    T().visit(tree)


def _inline_nested_thunks(fn, stats):
    """A nested function without parameters whose body is one `return E`, only ever called directly (`g()`) in the enclosing function's own
    scope, is E at each call (its free names are read at call time either way)."""
    for holder, fld, block in list(blocks_of(fn)):
        for g in [st for st in block if isinstance(st, ast.FunctionDef)]:
            a = g.args
            if a.args or a.posonlyargs or a.kwonlyargs or a.vararg or a.kwarg or g.decorator_list:
                continue
            body = [st for st in g.body if not (isinstance(st, ast.Expr) and isinstance(st.value, ast.Constant))]
            if body and isinstance(body[-1], ast.If) and not body[-1].orelse:
                body = body + [ast.Return(value=ast.Constant(value=None))]       # falling off the end answers None
            E = _return_tree(body)
            if E is None or len(body) == 1 and isinstance(body[0], ast.Return) and body[0].value is None:
                continue
            if any(isinstance(n, (ast.Yield, ast.YieldFrom, ast.Await, ast.NamedExpr, ast.Lambda)) for n in ast.walk(E)):
                continue
            own = list(_walk_same_scope_fn(fn))
            mentions = [n for n in ast.walk(fn) if isinstance(n, ast.Name) and n.id == g.name]
            calls = [n for n in own if isinstance(n, ast.Call) and isinstance(n.func, ast.Name) and n.func.id == g.name and not n.args and not n.keywords]
            if not calls or len(calls) != len(mentions):
                continue
            # names read by E must not be rebound as a different kind of thing between definition and call: they are plain locals of fn either way
            for c in calls:
                for n in ast.walk(fn):
                    for f_, v in ast.iter_fields(n):
                        if v is c:
                            setattr(n, f_, loc(copy.deepcopy(E), c))
                        elif isinstance(v, list):
                            for k_, e_ in enumerate(v):
                                if e_ is c:
                                    v[k_] = loc(copy.deepcopy(E), c)
            block.remove(g)
            if not block:
                block.append(loc(ast.Pass(), g))
            stats["nested-thunk-inlined"] = stats.get("nested-thunk-inlined", 0) + 1


def _partials_of_new_helpers(tree, modname, known, stats):
    """`partial(H, a, ..)` / `partial(self.H, a, ..)` where H is a private function / method the reference does not know: the closure it stands
    for, written out where the partial is made -- a lambda over the remaining parameters when H is one `return E`, a nested def otherwise.
    A bound argument is written in place when it is a name the enclosing function never rebinds (or has the parameter's own name);
    otherwise it is first copied to a local named after the parameter."""
    helpers = {}
    for n in tree.body:
        if isinstance(n, ast.FunctionDef) and n.name.startswith("_") and f"{modname}.{n.name}" not in known and not n.decorator_list:
            helpers[("", n.name)] = n
        elif isinstance(n, ast.ClassDef):
            for m in n.body:
                if isinstance(m, ast.FunctionDef) and m.name.startswith("_") and not m.name.endswith("__") and f"{modname}.{n.name}.{m.name}" not in known and not m.decorator_list:
                    helpers[(n.name, m.name)] = m
    if not helpers:
        return
    used = set()
    for cls, fn in [(None, f) for f in tree.body if isinstance(f, FUNC)] + [(c.name, f) for c in tree.body if isinstance(c, ast.ClassDef) for f in c.body if isinstance(f, FUNC)]:
        stores = {}
        for n in ast.walk(fn):
            if isinstance(n, ast.Name) and isinstance(n.ctx, (ast.Store, ast.Del)):
                stores[n.id] = stores.get(n.id, 0) + 1
            elif isinstance(n, FUNC) and n is not fn:
                stores[n.name] = stores.get(n.name, 0) + 1
        names = {n.id for n in ast.walk(fn) if isinstance(n, ast.Name)} | {a.arg for a in ast.walk(fn) if isinstance(a, ast.arg)}
        for holder, fld, block in list(blocks_of(fn)):
            i = 0
            while i < len(block):
                st = block[i]
                i += 1
                if isinstance(st, FUNC + (ast.ClassDef,)):
                    continue
                for c in [n for n in ast.walk(st) if isinstance(n, ast.Call) and ast.unparse(n.func) in ("partial", "functools.partial") and n.args and not n.keywords]:
                    tgt = c.args[0]
                    if isinstance(tgt, ast.Name) and ("", tgt.id) in helpers:
                        h, recv = helpers[("", tgt.id)], None
                    elif isinstance(tgt, ast.Attribute) and isinstance(tgt.value, ast.Name) and tgt.value.id == "self" and cls and (cls, tgt.attr) in helpers:
                        h, recv = helpers[(cls, tgt.attr)], "self"
                    else:
                        continue
                    a = h.args
                    if a.vararg or a.kwarg or a.kwonlyargs or a.posonlyargs or a.defaults or any(isinstance(x, ast.Starred) for x in c.args):
                        continue
                    params = [x.arg for x in a.args]
                    if recv:
                        if not params:
                            continue
                        selfp, params = params[0], params[1:]
                    bound = c.args[1:]
                    if len(bound) > len(params) or not all(isinstance(b, (ast.Name, ast.Constant)) for b in bound):
                        continue
                    mapping, pre = {}, []
                    if recv and selfp != "self":
                        mapping[selfp] = ast.Name(id="self", ctx=ast.Load())
                    for pname, b in zip(params, bound):
                        if isinstance(b, ast.Constant) or b.id == pname or stores.get(b.id, 0) == 0:
                            if not (isinstance(b, ast.Name) and b.id == pname):
                                mapping[pname] = b
                        else:
                            tmp = pname if pname not in names else f"_p_{pname}"
                            names.add(tmp)
                            pre.append(loc(ast.Assign(targets=[ast.Name(id=tmp, ctx=ast.Store())], value=copy.deepcopy(b)), st))
                            if tmp != pname:
                                mapping[pname] = ast.Name(id=tmp, ctx=ast.Load())
                    rest = params[len(bound):]
                    body = [x for x in h.body if not (isinstance(x, ast.Expr) and isinstance(x.value, ast.Constant))]
                    body = [_Subst(mapping).visit(copy.deepcopy(x)) for x in body]
                    argspec = ast.arguments(posonlyargs=[], args=[ast.arg(arg=r) for r in rest], vararg=None, kwonlyargs=[], kw_defaults=[], kwarg=None, defaults=[])
                    if len(body) == 1 and isinstance(body[0], ast.Return) and body[0].value is not None:
                        new = loc(ast.Lambda(args=argspec, body=body[0].value), c)
                    else:
                        nm = h.name
                        pre.append(loc(ast.FunctionDef(name=nm, args=argspec, body=body, decorator_list=[], returns=None, type_params=[]), st))
                        new = loc(ast.Name(id=nm, ctx=ast.Load()), c)
                    for n in ast.walk(st):
                        for f_, v in ast.iter_fields(n):
                            if v is c:
                                setattr(n, f_, new)
                            elif isinstance(v, list):
                                for k_, e_ in enumerate(v):
                                    if e_ is c:
                                        v[k_] = new
                    block[i - 1:i - 1] = pre
                    i += len(pre)
                    used.add(id(h))
                    stats["partial-of-new-helper->closure"] = stats.get("partial-of-new-helper->closure", 0) + 1
    # helpers nothing refers to any more are dropped
    for key, h in helpers.items():
        if id(h) not in used:
            continue
        nm = h.name
        refs = [n for n in ast.walk(tree) if (isinstance(n, ast.Name) and n.id == nm and isinstance(n.ctx, ast.Load)) or (isinstance(n, ast.Attribute) and n.attr == nm)]
        if not refs:
            for holder in [tree] + [c for c in tree.body if isinstance(c, ast.ClassDef)]:
                if h in holder.body:
                    holder.body.remove(h)


def _coalesce_copies(fn, stats):
    """`X = T` where T is a local that lives only in the statements just before (bound there, read nowhere after) and X is untouched over
    that stretch except for being copied into T (`T = X`): T was X under another name -- T is renamed to X and the copies disappear."""
    for holder, fld, block in list(blocks_of(fn)):
        S = 0
        while S < len(block):
            st = block[S]
            S += 1
            if not (isinstance(st, ast.Assign) and len(st.targets) == 1 and isinstance(st.targets[0], ast.Name) and isinstance(st.value, ast.Name)
                    and st.value.id != st.targets[0].id):
                continue
            X, T = st.targets[0].id, st.value.id
            if any(a.arg == T for a in fn.args.args + fn.args.kwonlyargs + fn.args.posonlyargs):
                continue
            idx = S - 1
            firsts = [k for k in range(idx) if any(isinstance(n, ast.Name) and n.id == T for n in ast.walk(block[k]))]
            if not firsts:
                continue
            j = firsts[0]
            region = block[j:idx]
            inside = {id(n) for r in region for n in ast.walk(r)} | {id(st.value)}
            if any(isinstance(n, ast.Name) and n.id == T and id(n) not in inside for n in ast.walk(fn)):
                continue
            if any(isinstance(g, FUNC + (ast.Lambda, ast.ListComp, ast.SetComp, ast.DictComp, ast.GeneratorExp)) and any(isinstance(y, ast.Name) and y.id == T for y in ast.walk(g))
                   for r in region for g in ast.walk(r)):
                continue
            # the first mention of T must be a binding, at statement level of the region (possibly in the branches of an if chain)
            copies = [n for r in region for n in ast.walk(r) if isinstance(n, ast.Assign) and len(n.targets) == 1 and isinstance(n.targets[0], ast.Name)
                      and n.targets[0].id == T and isinstance(n.value, ast.Name) and n.value.id == X]
            allowed = {id(c.value) for c in copies}
            if any(isinstance(n, ast.Name) and n.id == X and id(n) not in allowed for r in region for n in ast.walk(r)):
                continue
            if any(isinstance(n, (ast.While, ast.For, ast.Try, ast.With)) for r in region for n in ast.walk(r)):
                continue
            for r in region:
                for n in ast.walk(r):
                    if isinstance(n, ast.Name) and n.id == T:
                        n.id = X
            # drop the copies (now `X = X`)
            for hold2, fld2, b2 in [(None, None, block)] + [x for r in region for x in blocks_of(r)]:
                for c in list(b2):
                    if isinstance(c, ast.Assign) and len(c.targets) == 1 and isinstance(c.targets[0], ast.Name) and isinstance(c.value, ast.Name) and c.targets[0].id == c.value.id == X:
                        if len(b2) == 1:
                            b2[0] = loc(ast.Pass(), c)
                        else:
                            b2.remove(c)
            if st in block:
                block.remove(st)
            S = 0
            stats["copy-coalesced"] = stats.get("copy-coalesced", 0) + 1


def _coalesce_branch_copies(fn, stats):
    """`if c: T = X else: T = E(X)` (every branch ends by binding the new local T, one of them as a plain copy of X) with X never mentioned again
    afterwards: T is X carried on under another name -- T is renamed to X and the copy disappears (the rebinding of a parameter written without
    rebinding it)."""
    params = {a.arg for a in fn.args.posonlyargs + fn.args.args + fn.args.kwonlyargs}
    for holder, fld, block in list(blocks_of(fn)):
        for idx, st in enumerate(list(block)):
            if not (isinstance(st, ast.If) and st.orelse):
                continue
            leaves = []

            def collect(ifn):
                for br in (ifn.body, ifn.orelse):
                    if len(br) == 1 and isinstance(br[0], ast.If) and br[0].orelse:
                        if not collect(br[0]):
                            return False
                    elif br and isinstance(br[-1], ast.Assign) and len(br[-1].targets) == 1 and isinstance(br[-1].targets[0], ast.Name):
                        leaves.append(br[-1])
                    else:
                        return False
                return True
            if not collect(st) or len({l.targets[0].id for l in leaves}) != 1:
                continue
            T = leaves[0].targets[0].id
            copies = [l for l in leaves if isinstance(l.value, ast.Name) and l.value.id != T]
            if not copies or len({c.value.id for c in copies}) != 1 or T in params:
                continue
            X = copies[0].value.id
            inside = {id(n) for n in ast.walk(st)}
            before = {id(n) for b in block[:idx] for n in ast.walk(b)}
            if block is not fn.body:
                continue
            if any(isinstance(n, ast.Name) and n.id == X and id(n) not in inside and id(n) not in before for n in ast.walk(fn)):
                continue        # X is still used afterwards
            if any(isinstance(n, ast.Name) and n.id == T and (id(n) in before or (id(n) in inside and isinstance(n.ctx, ast.Load))) for n in ast.walk(fn)):
                continue
            if any(isinstance(g, FUNC + (ast.Lambda,)) and any(isinstance(y, ast.Name) and y.id in (T, X) for y in ast.walk(g)) for g in ast.walk(fn) if g is not fn):
                continue
            for n in ast.walk(fn):
                if isinstance(n, ast.Name) and n.id == T:
                    n.id = X
            for hold2, fld2, b2 in list(blocks_of(st)):
                for c in list(b2):
                    if isinstance(c, ast.Assign) and len(c.targets) == 1 and isinstance(c.targets[0], ast.Name) and isinstance(c.value, ast.Name) and c.targets[0].id == c.value.id == X:
                        if len(b2) == 1:
                            b2[0] = loc(ast.Pass(), c)
                        else:
                            b2.remove(c)
            stats["branch-copy-coalesced"] = stats.get("branch-copy-coalesced", 0) + 1


def _simple_arg_or_item(t):
    """a plain name / attribute chain, or an item of one addressed by a plain key"""
    return _simple_arg(t) or isinstance(t, ast.Subscript) and _simple_arg(t.value) and _simple_arg(t.slice)


def _pair_loops(fn, stats):
    """`for e in X.items(): .. e[0] .. e[1] ..` (e used in no other way) is `for k, v in X.items()`."""
    for n in ast.walk(fn):
        if isinstance(n, (ast.For, ast.comprehension)) and isinstance(n.target, ast.Name) and isinstance(n.iter, ast.Call) and isinstance(n.iter.func, ast.Attribute) \
                and n.iter.func.attr == "items" and not n.iter.args:
            e = n.target.id
            scope = n if isinstance(n, ast.For) else getattr(n, "_parent", None)
            if scope is None:
                continue
            uses = [x for x in ast.walk(scope) if isinstance(x, ast.Name) and x.id == e and x is not n.target]
            subs = [x for x in ast.walk(scope) if isinstance(x, ast.Subscript) and isinstance(x.value, ast.Name) and x.value.id == e and isinstance(x.ctx, ast.Load)
                    and isinstance(x.slice, ast.Constant) and x.slice.value in (0, 1)]
            if not uses or len(uses) != len(subs) or any(isinstance(x, ast.Name) and x.id == e and x is not n.target for x in ast.walk(fn) if not any(x is u for u in uses)):
                continue
            names = {0: f"_{e}_k", 1: f"_{e}_v"}
            for sub in subs:
                _replace_node(scope, sub, ast.Name(id=names[sub.slice.value], ctx=ast.Load()))
            n.target = loc(ast.Tuple(elts=[ast.Name(id=names[0], ctx=ast.Store()), ast.Name(id=names[1], ctx=ast.Store())], ctx=ast.Store()), n.target)
            stats["pair-indexing->unpacking"] = stats.get("pair-indexing->unpacking", 0) + 1
            # `x = <key>` / `y = <value>` at the head of the loop body were the names the author wanted: use them for the targets
            if isinstance(n, ast.For):
                for st in list(n.body[:2]):
                    if isinstance(st, ast.Assign) and len(st.targets) == 1 and isinstance(st.targets[0], ast.Name) and isinstance(st.value, ast.Name) and st.value.id in names.values() \
                            and sum(1 for x in ast.walk(fn) if isinstance(x, ast.Name) and x.id == st.targets[0].id and isinstance(x.ctx, ast.Store)) == 1 and len(n.body) > 1:
                        old_, new_ = st.value.id, st.targets[0].id
                        n.body.remove(st)
                        for x in ast.walk(n):
                            if isinstance(x, ast.Name) and x.id == old_:
                                x.id = new_


def _literal_table_locals(fn, stats):
    """A local bound once to a dict display with literal keys and plain values, and only ever read as `D[<literal key>]`: each read is the value."""
    for holder, fld, block in list(blocks_of(fn)):
        for st in list(block):
            if not (isinstance(st, ast.Assign) and len(st.targets) == 1 and isinstance(st.targets[0], ast.Name) and isinstance(st.value, ast.Dict) and st.value.keys
                    and all(isinstance(k, ast.Constant) for k in st.value.keys) and all(_simple_arg(v) for v in st.value.values)):
                continue
            D = st.targets[0].id
            uses = [n for n in ast.walk(fn) if isinstance(n, ast.Name) and n.id == D and n is not st.targets[0]]
            subs = [n for n in ast.walk(fn) if isinstance(n, ast.Subscript) and isinstance(n.value, ast.Name) and n.value.id == D and isinstance(n.ctx, ast.Load)
                    and isinstance(n.slice, ast.Constant) and any(k.value == n.slice.value for k in st.value.keys)]
            if not uses or len(uses) != len(subs) or any(isinstance(u.ctx, ast.Store) for u in uses):
                continue
            # the values must not be rebound between the table and its reads (plain parameters / names bound once)
            stores = {}
            for n in ast.walk(fn):
                if isinstance(n, ast.Name) and isinstance(n.ctx, (ast.Store, ast.Del)):
                    stores[n.id] = stores.get(n.id, 0) + 1
            if any(isinstance(v, ast.Name) and stores.get(v.id, 0) > 0 for v in st.value.values):
                continue
            table = {k.value: v for k, v in zip(st.value.keys, st.value.values)}
            for sub in subs:
                _replace_node(fn, sub, copy.deepcopy(table[sub.slice.value]))
            block.remove(st)
            if not block:
                block.append(loc(ast.Pass(), st))
            stats["literal-table-local-resolved"] = stats.get("literal-table-local-resolved", 0) + 1


def _parameter_aliases(fn, stats):
    """`a = p` where p is a parameter the function never rebinds and a is bound nowhere else: a is p."""
    params = {x.arg for x in fn.args.posonlyargs + fn.args.args + fn.args.kwonlyargs}
    stores = {}
    for n in ast.walk(fn):
        if isinstance(n, ast.Name) and isinstance(n.ctx, (ast.Store, ast.Del)):
            stores[n.id] = stores.get(n.id, 0) + 1
        elif isinstance(n, (ast.Global, ast.Nonlocal)):
            for x in n.names:
                stores[x] = stores.get(x, 0) + 2
    for holder, fld, block in list(blocks_of(fn)):
        for st in list(block):
            if isinstance(st, ast.Assign) and len(st.targets) == 1 and isinstance(st.targets[0], ast.Name) and isinstance(st.value, ast.Name) \
                    and st.value.id in params and stores.get(st.value.id, 0) == 0 and stores.get(st.targets[0].id) == 1 and st.targets[0].id not in params:
                a, p_ = st.targets[0].id, st.value.id
                if any(isinstance(g, FUNC + (ast.Lambda,)) and g is not fn and any(isinstance(y, ast.Name) and y.id == a for y in ast.walk(g)) for g in ast.walk(fn)):
                    continue
                for n in ast.walk(fn):
                    if isinstance(n, ast.Name) and n.id == a and isinstance(n.ctx, ast.Load):
                        n.id = p_
                block.remove(st)
                if not block:
                    block.append(loc(ast.Pass(), st))
                stats["parameter-alias-expanded"] = stats.get("parameter-alias-expanded", 0) + 1


def _get_then_none_test(fn, tree, stats):
    """`X = D.get(K)` directly followed by `if X is not None: BODY` (X read nowhere else) is `if K in D: BODY` with `D[K]` for X -- when
    no store into that table anywhere in the module can put a None there (every `<..>.attr[..] = V` has V a display / constructor call)."""
    def never_none(attr):
        stores = []
        for f in ast.walk(tree):
            if not isinstance(f, FUNC):
                continue
            for n in _walk_same_scope_fn(f):
                if isinstance(n, ast.Assign):
                    for t in n.targets:
                        if isinstance(t, ast.Subscript) and isinstance(t.value, ast.Attribute) and t.value.attr == attr:
                            v = n.value
                            if isinstance(v, ast.Name):
                                ds = [a.value for a in _walk_same_scope_fn(f) if isinstance(a, ast.Assign) and len(a.targets) == 1 and isinstance(a.targets[0], ast.Name) and a.targets[0].id == v.id]
                                v = ds[0] if len(ds) == 1 else v
                            stores.append(isinstance(v, (ast.Tuple, ast.List, ast.Dict, ast.Set, ast.JoinedStr)) or isinstance(v, ast.Constant) and v.value is not None)
                elif isinstance(n, ast.Call) and isinstance(n.func, ast.Attribute) and n.func.attr in ("setdefault", "update") and isinstance(n.func.value, ast.Attribute) \
                        and n.func.value.attr == attr:
                    stores.append(False)
        return bool(stores) and all(stores)
    for holder, fld, block in list(blocks_of(fn)):
        i = 0
        while i + 1 < len(block):
            a, b = block[i], block[i + 1]
            i += 1
            if not (isinstance(a, ast.Assign) and len(a.targets) == 1 and isinstance(a.targets[0], ast.Name) and isinstance(a.value, ast.Call)
                    and isinstance(a.value.func, ast.Attribute) and a.value.func.attr == "get" and len(a.value.args) == 1 and not a.value.keywords
                    and isinstance(a.value.func.value, ast.Attribute) and isinstance(a.value.args[0], ast.Name)):
                continue
            x = a.targets[0].id
            t = b.test if isinstance(b, ast.If) else None
            if not (isinstance(t, ast.Compare) and isinstance(t.left, ast.Name) and t.left.id == x and len(t.ops) == 1 and isinstance(t.ops[0], ast.IsNot)
                    and isinstance(t.comparators[0], ast.Constant) and t.comparators[0].value is None and not b.orelse):
                continue
            inside = sum(1 for st in b.body for n in ast.walk(st) if isinstance(n, ast.Name) and n.id == x)
            total = sum(1 for n in ast.walk(fn) if isinstance(n, ast.Name) and n.id == x)
            if total != inside + 2 or any(isinstance(n, ast.Name) and n.id == x and not isinstance(n.ctx, ast.Load) for st in b.body for n in ast.walk(st)):
                continue
            D, K = a.value.func.value, a.value.args[0]
            if not never_none(D.attr):
                continue

            class S(ast.NodeTransformer):
                def visit_Name(self, n):
                    if n.id == x:
                        return ast.copy_location(ast.Subscript(value=copy.deepcopy(D), slice=copy.deepcopy(K), ctx=ast.Load()), n)
                    return n
            b.body = [S().visit(st) for st in b.body]
            b.test = ast.copy_location(ast.Compare(left=copy.deepcopy(K), ops=[ast.In()], comparators=[copy.deepcopy(D)]), t)
            ast.fix_missing_locations(b)
            block.remove(a)
            stats["get-then-none-test"] = stats.get("get-then-none-test", 0) + 1


def _inline_private_context_managers(tree, modname, known, stats):
    """A module-private class the reference does not know, with nothing but __init__ (storing its arguments), __enter__ and __exit__, used
    only as `with C(..) [as x]:`, is the try statement it stands for: the statements of __exit__ under `typ is not None` are an
    `except BaseException: ..; raise` handler, those under `typ is None` run after the block, unconditional ones are a `finally`
    (__exit__ must answer False / None: the exception always propagates).  The class is removed."""
    classes = [c for c in tree.body if isinstance(c, ast.ClassDef) and c.name.startswith("_") and not c.bases and not c.decorator_list
               and not any(k.startswith(f"{modname}.{c.name}.") for k in known)]
    for c in classes:
        meths = {m.name: m for m in c.body if isinstance(m, FUNC)}
        rest = [m for m in c.body if not isinstance(m, FUNC) and not (isinstance(m, ast.Expr) and isinstance(m.value, ast.Constant))
                and not (isinstance(m, ast.Assign) and len(m.targets) == 1 and isinstance(m.targets[0], ast.Name) and m.targets[0].id == "__slots__")]
        if rest or not {"__enter__", "__exit__"} <= set(meths) or set(meths) - {"__init__", "__enter__", "__exit__"}:
            continue
        if any(m.decorator_list for m in meths.values()):
            continue
        # every mention of the class is the context expression of a with item
        uses = []
        mentions = [n for n in ast.walk(tree) if isinstance(n, ast.Name) and n.id == c.name]
        for w in ast.walk(tree):
            if isinstance(w, ast.With):
                for it in w.items:
                    e = it.context_expr
                    if isinstance(e, ast.Call) and isinstance(e.func, ast.Name) and e.func.id == c.name:
                        uses.append((w, it))
        if not uses or len(uses) != len(mentions) or any(len(w.items) != 1 for w, it in uses):
            continue
        # __init__: self.f = <parameter>
        init = meths.get("__init__")
        fields, params, vararg = {}, [], None
        ok = True
        if init is not None:
            a = init.args
            if a.kwonlyargs or a.kwarg or a.defaults or a.posonlyargs:
                continue
            params = [x.arg for x in a.args[1:]]
            vararg = a.vararg.arg if a.vararg else None
            for st in init.body:
                if isinstance(st, ast.Expr) and isinstance(st.value, ast.Constant):
                    continue
                if isinstance(st, ast.Assign) and len(st.targets) == 1 and isinstance(st.targets[0], ast.Attribute) and isinstance(st.targets[0].value, ast.Name) \
                        and st.targets[0].value.id == a.args[0].arg and isinstance(st.value, ast.Name) and st.value.id in params + [vararg]:
                    fields[st.targets[0].attr] = st.value.id
                else:
                    ok = False
        if not ok:
            continue
        ent, ext = meths["__enter__"], meths["__exit__"]
        if len(ent.args.args) != 1 or len(ext.args.args) != 4 or ext.args.vararg or ent.args.vararg:
            continue
        ebody = [st for st in ent.body if not (isinstance(st, ast.Expr) and isinstance(st.value, ast.Constant))]
        eret = None
        if ebody and isinstance(ebody[-1], ast.Return):
            eret = ebody[-1].value
            ebody = ebody[:-1]
        if any(isinstance(n, (ast.Return, ast.Yield, ast.YieldFrom)) for st in ebody for n in ast.walk(st)):
            continue
        typ = ext.args.args[1].arg
        xbody = [st for st in ext.body if not (isinstance(st, ast.Expr) and isinstance(st.value, ast.Constant))]
        if xbody and isinstance(xbody[-1], ast.Return):
            v = xbody[-1].value
            if not (v is None or isinstance(v, ast.Constant) and v.value in (False, None)):
                continue
            xbody = xbody[:-1]
        on_err, on_ok, always = [], [], []
        for st in xbody:
            t = st.test if isinstance(st, ast.If) else None
            if isinstance(t, ast.Compare) and isinstance(t.left, ast.Name) and t.left.id == typ and len(t.ops) == 1 and isinstance(t.comparators[0], ast.Constant) \
                    and t.comparators[0].value is None and isinstance(t.ops[0], (ast.Is, ast.IsNot)):
                a_, b_ = (st.body, st.orelse) if isinstance(t.ops[0], ast.IsNot) else (st.orelse, st.body)
                on_err += a_
                on_ok += b_
            else:
                always.append(st)
        flat = on_err + on_ok + always
        if any(isinstance(n, (ast.Return, ast.Yield, ast.YieldFrom)) for st in flat for n in ast.walk(st)) or \
                any(isinstance(n, ast.Name) and n.id in [x.arg for x in ext.args.args[1:]] for st in flat for n in ast.walk(st)):
            continue

        def pure(e):
            return isinstance(e, (ast.Name, ast.Constant)) or isinstance(e, ast.Attribute) and pure(e.value) or \
                isinstance(e, ast.Call) and isinstance(e.func, ast.Name) and e.func.id == "super" and not e.args or isinstance(e, ast.Tuple) and all(pure(x) for x in e.elts)
        done = True
        plans = []
        for w, it in uses:
            call = it.context_expr
            if call.keywords or any(isinstance(x, ast.Starred) for x in call.args) or len(call.args) < len(params) or (len(call.args) > len(params) and not vararg):
                done = False
                break
            bind = dict(zip(params, call.args))
            if vararg:
                bind[vararg] = ast.Tuple(elts=list(call.args[len(params):]), ctx=ast.Load())
            asname = it.optional_vars.id if isinstance(it.optional_vars, ast.Name) else None
            if it.optional_vars is not None and asname is None:
                done = False
                break
            if on_ok and any(isinstance(n, (ast.Return, ast.Break, ast.Continue)) for st in w.body for n in _walk_same_scope(st)):
                done = False
                break
            plans.append((w, bind, asname))
        if not done:
            continue
        selfname_e, selfname_x = ent.args.args[0].arg, ext.args.args[0].arg
        for w, bind, asname in plans:
            pre = []
            fsub = {}
            ret_field = eret.attr if isinstance(eret, ast.Attribute) and isinstance(eret.value, ast.Name) and eret.value.id == selfname_e else None
            for f, pname in fields.items():
                arg = bind[pname]
                if pure(arg):
                    fsub[f] = arg
                elif asname and f == ret_field:
                    pre.append(ast.copy_location(ast.Assign(targets=[ast.Name(id=asname, ctx=ast.Store())], value=arg, lineno=w.lineno), w))
                    fsub[f] = ast.Name(id=asname, ctx=ast.Load())
                else:
                    pre.append(ast.copy_location(ast.Assign(targets=[ast.Name(id=f"_cm_{f}", ctx=ast.Store())], value=arg, lineno=w.lineno), w))
                    fsub[f] = ast.Name(id=f"_cm_{f}", ctx=ast.Load())
            # arguments not stored in a field are evaluated for effect only if impure
            for pname, arg in bind.items():
                if pname not in fields.values() and not pure(arg):
                    pre.append(ast.copy_location(ast.Expr(value=arg), w))

            def subst(stmts, selfname):
                class S(ast.NodeTransformer):
                    def visit_Attribute(self, n):
                        if isinstance(n.value, ast.Name) and n.value.id == selfname and n.attr in fsub and isinstance(n.ctx, ast.Load):
                            return copy.deepcopy(fsub[n.attr])
                        return self.generic_visit(n)
                out = [S().visit(copy.deepcopy(st)) for st in stmts]
                for st in out:
                    for n in ast.walk(st):
                        ast.copy_location(n, w)
                        if isinstance(n, ast.Call) and any(isinstance(x, ast.Starred) and isinstance(x.value, ast.Tuple) for x in n.args):
                            n.args = [y for x in n.args for y in (x.value.elts if isinstance(x, ast.Starred) and isinstance(x.value, ast.Tuple) else [x])]
                return out
            enter = subst(ebody, selfname_e)
            if asname and eret is not None and not (ret_field and isinstance(fsub.get(ret_field), ast.Name) and fsub[ret_field].id == asname):
                if isinstance(eret, ast.Name) and eret.id == selfname_e:
                    pass          # `as x` names the manager object itself: nothing of it is left to name (uses of x would keep the class alive)
                else:
                    val = subst([ast.Expr(value=eret)], selfname_e)[0].value
                    enter.append(ast.copy_location(ast.Assign(targets=[ast.Name(id=asname, ctx=ast.Store())], value=val, lineno=w.lineno), w))
            A, B, U = subst(on_err, selfname_x), subst(on_ok, selfname_x), subst(always, selfname_x)
            if A or U:
                handlers = [ast.copy_location(ast.ExceptHandler(type=ast.Name(id="BaseException", ctx=ast.Load()), name=None,
                                                               body=A + [ast.copy_location(ast.Raise(exc=None, cause=None), w)]), w)] if A else []
                core = [ast.copy_location(ast.Try(body=w.body, handlers=handlers, orelse=B, finalbody=U), w)]
            else:
                core = w.body + B
            w._replacement = pre + enter + core
        # splice

        class R(ast.NodeTransformer):
            def visit_With(self, n):
                self.generic_visit(n)
                rep = getattr(n, "_replacement", None)
                if rep is not None:
                    for r in rep:
                        ast.fix_missing_locations(r)
                    return rep
                return n
        R().visit(tree)
        tree.body.remove(c)
        stats["context-manager-classes-inlined"] = stats.get("context-manager-classes-inlined", 0) + 1
        stats.setdefault("inlined", []).append(f"{modname}.{c.name}->with")


def _generators_as_list_builders(tree, stats):
    """A generator whose every call is consumed on the spot (`list(g(..))`, `for x in g(..)`, `.extend(g(..))`, dict / sorted / set / tuple /
    any / all / sum of it) and that uses `yield` only as a statement is the function that appends to a list and returns it: `yield E` is
    `_out.append(E)`, `yield from X` is `_out.extend(X)`, and `list(g(..))` is `g(..)`.  (Laziness is unobservable when the consumer drains
    the generator before anything else runs.)"""
    gens = {}
    for f in ast.walk(tree):
        if not isinstance(f, ast.FunctionDef):
            continue
        own = [n for n in _walk_same_scope_fn(f)]
        ys = [n for n in own if isinstance(n, (ast.Yield, ast.YieldFrom))]
        if not ys:
            continue
        stmt_ys = [n for n in own if isinstance(n, ast.Expr) and isinstance(n.value, (ast.Yield, ast.YieldFrom))]
        if len(stmt_ys) != len(ys) or any(isinstance(n, ast.Return) and n.value is not None for n in own) or f.decorator_list and any(
                not (isinstance(d, ast.Name) and d.id in ("staticmethod", "classmethod")) for d in f.decorator_list):
            continue
        gens.setdefault(f.name, []).append(f)
    if not gens:
        return
    CONSUMERS = {"list", "tuple", "dict", "sorted", "set", "frozenset", "any", "all", "sum", "max", "min"}
    parents = {}
    for n in ast.walk(tree):
        for c in ast.iter_child_nodes(n):
            parents[c] = n
    for name, fs in gens.items():
        if len(fs) != 1:
            continue
        f = fs[0]
        refs = [n for n in ast.walk(tree) if (isinstance(n, ast.Name) and n.id == name and isinstance(n.ctx, ast.Load)) or (isinstance(n, ast.Attribute) and n.attr == name and isinstance(n.ctx, ast.Load))]
        calls = []
        ok = bool(refs)
        for r in refs:
            c = parents.get(r)
            if not (isinstance(c, ast.Call) and c.func is r):
                ok = False
                break
            up = parents.get(c)
            consumed = (isinstance(up, ast.Call) and c in up.args and ((isinstance(up.func, ast.Name) and up.func.id in CONSUMERS and len(up.args) == 1)
                                                                        or (isinstance(up.func, ast.Attribute) and up.func.attr in ("extend", "update", "join")))) \
                or (isinstance(up, (ast.For, ast.comprehension)) and up.iter is c) or (isinstance(up, ast.Starred))
            if not consumed:
                ok = False
                break
            calls.append((c, up))
        if not ok:
            continue
        # a straight list of `yield key, value` statements consumed only by dict(..): the dict display itself
        body_ = _strip_doc(f.body)
        if body_ and all(isinstance(b, ast.Expr) and isinstance(b.value, ast.Yield) and isinstance(b.value.value, ast.Tuple) and len(b.value.value.elts) == 2 for b in body_) \
                and all(isinstance(up, ast.Call) and isinstance(up.func, ast.Name) and up.func.id == "dict" for c, up in calls):
            disp = ast.Dict(keys=[b.value.value.elts[0] for b in body_], values=[b.value.value.elts[1] for b in body_])
            f.body = f.body[:len(f.body) - len(body_)] + [loc(ast.Return(value=disp), body_[0])]
            for c, up in calls:
                gp = parents.get(up)
                if gp is not None:
                    _replace_node(gp, up, c)
            ast.fix_missing_locations(tree)
            stats["generator-of-pairs->dict"] = stats.get("generator-of-pairs->dict", 0) + 1
            continue
        out = "_out"
        if any(isinstance(n, ast.Name) and n.id == out for n in ast.walk(f)):
            continue

        class Y(ast.NodeTransformer):
            def visit_FunctionDef(self, n):
                return n if n is not f else self.generic_visit(n)
            visit_AsyncFunctionDef = visit_Lambda = lambda self, n: n

            def visit_Expr(self, n):
                v = n.value
                if isinstance(v, ast.Yield):
                    val = v.value if v.value is not None else ast.Constant(value=None)
                    return loc(ast.Expr(value=ast.Call(func=ast.Attribute(value=ast.Name(id=out, ctx=ast.Load()), attr="append", ctx=ast.Load()), args=[val], keywords=[])), n)
                if isinstance(v, ast.YieldFrom):
                    return loc(ast.Expr(value=ast.Call(func=ast.Attribute(value=ast.Name(id=out, ctx=ast.Load()), attr="extend", ctx=ast.Load()), args=[v.value], keywords=[])), n)
                return n

            def visit_Return(self, n):
                return loc(ast.Return(value=ast.Name(id=out, ctx=ast.Load())), n)
        Y().visit(f)
        doc = 1 if f.body and isinstance(f.body[0], ast.Expr) and isinstance(f.body[0].value, ast.Constant) and isinstance(f.body[0].value.value, str) else 0
        f.body.insert(doc, loc(ast.Assign(targets=[ast.Name(id=out, ctx=ast.Store())], value=ast.List(elts=[], ctx=ast.Load())), f))
        f.body.append(loc(ast.Return(value=ast.Name(id=out, ctx=ast.Load())), f))
        for c, up in calls:
            if isinstance(up, ast.Call) and isinstance(up.func, ast.Name) and up.func.id == "list":
                gp = parents.get(up)
                if gp is not None:
                    _replace_node(gp, up, c)
        ast.fix_missing_locations(tree)
        stats["generator->list-builder"] = stats.get("generator->list-builder", 0) + 1


def _walk_same_scope_fn(f):
    todo = list(f.body)
    while todo:
        n = todo.pop()
        yield n
        for c in ast.iter_child_nodes(n):
            if not isinstance(c, (ast.FunctionDef, ast.AsyncFunctionDef, ast.Lambda, ast.ClassDef)):
                todo.append(c)


def normalise(tree, modname, keyword_names=frozenset(), ref=None, stats=None):
    ref = reference() if ref is None else ref
    stats = stats if stats is not None else {}
    mark_real(tree)
    known = set(ref.get("inventory", {}).get(modname, []))
    _match_as_if(tree, stats)
    _pair_tables_as_dicts(tree, stats)
    for f_ in ast.walk(tree):          # a bare `return` / `return None` that ends a function body (nested functions included)
        if isinstance(f_, FUNC):
            while len(f_.body) > 1 and isinstance(f_.body[-1], ast.Return) and (f_.body[-1].value is None or isinstance(f_.body[-1].value, ast.Constant) and f_.body[-1].value.value is None):
                f_.body.pop()
                stats["final-return-none-dropped"] = stats.get("final-return-none-dropped", 0) + 1
    if known:
        _inline_private_context_managers(tree, modname, known, stats)
        _partials_of_new_helpers(tree, modname, known, stats)
        _generators_as_list_builders(tree, stats)
        library_spellings(tree, stats)
        propagate_new_constants(tree, modname, set(ref.get("module_names", {}).get(modname, [])), stats)
        attr_access_by_name(tree, stats)
        inl = Inliner(tree, modname, known)
        inl.run()
        if inl.count:
            stats["helpers-inlined"] = stats.get("helpers-inlined", 0) + inl.count
            stats.setdefault("inlined", []).extend(f"{modname}.{h}->{c}" for h, c in inl.inlined)
            if inl.removed:
                stats.setdefault("helpers-folded-away", []).extend(f"{modname}.{h}" for h in inl.removed)
    for q, fn in top_functions(tree, modname):
        _inline_nested_thunks(fn, stats)
        _coalesce_copies(fn, stats)
        _coalesce_branch_copies(fn, stats)
        _pair_loops(fn, stats)
        _get_then_none_test(fn, tree, stats)
        for _ in range(2):
            for holder, fld, block in reversed(list(blocks_of(fn))):     # inner blocks first
                canon_block(block, fn, stats)
        _global_aliases(fn, stats, tree)
        _own_attribute_aliases(fn, tree, stats)
        _merge_accumulators(fn, stats)
        _nested_defs_as_lambdas(fn, set(ref.get("nested", {}).get(q, [])) if known else None or set(), stats) if known else None
        _split_block_local_names(fn, stats)
        _single_use_temps(fn, stats)
        _unroll_literal_comprehensions(fn, stats)
        _literal_table_locals(fn, stats)
        _parameter_aliases(fn, stats)
        _star_displays(fn, stats)
        for holder, fld, block in reversed(list(blocks_of(fn))):     # idioms that only appear once temporaries are gone
            canon_block(block, fn, stats)
        _single_use_temps(fn, stats)                                 # ... and the temporaries those idioms leave (an accumulator that became a comprehension)
    if known:
        # helpers that only became directly visible after tables were unrolled / aliases expanded
        attr_access_by_name(tree, stats)
        inl2 = Inliner(tree, modname, known)
        inl2.run()
        if inl2.count:
            stats["helpers-inlined"] = stats.get("helpers-inlined", 0) + inl2.count
            stats.setdefault("inlined", []).extend(f"{modname}.{h}->{c}" for h, c in inl2.inlined)
            if inl2.removed:
                stats.setdefault("helpers-folded-away", []).extend(f"{modname}.{h}" for h in inl2.removed)
            for q, fn in top_functions(tree, modname):
                for holder, fld, block in reversed(list(blocks_of(fn))):
                    canon_block(block, fn, stats)
                _single_use_temps(fn, stats)
    roles = ref.get("roles", {})
    for q, fn in top_functions(tree, modname):
        if q in roles:
            applied = rename_locals(fn, roles[q], keyword_names)
            if applied:
                stats["locals-renamed"] = stats.get("locals-renamed", 0) + len(applied)
                stats.setdefault("renamed", []).append(f"{q}: " + ", ".join(f"{a}->{b}" for a, b in sorted(applied.items())))
    ast.fix_missing_locations(tree)
    k = 0
    for n in _preorder(tree):
        k += 1
        n._ord = k
    return stats


def _preorder(node):
    yield node
    for c in ast.iter_child_nodes(node):
        yield from _preorder(c)


def module_level_names(tree):
    out = set()
    for st in tree.body:
        if isinstance(st, (ast.Assign, ast.AnnAssign, ast.AugAssign)):
            for t in (st.targets if isinstance(st, ast.Assign) else [st.target]):
                for n in ast.walk(t):
                    if isinstance(n, ast.Name):
                        out.add(n.id)
        elif isinstance(st, ast.ClassDef):
            out.add(st.name)
            for m in st.body:
                if isinstance(m, ast.Assign):
                    for t in m.targets:
                        if isinstance(t, ast.Name):
                            out.add(f"{st.name}.{t.id}")
        elif isinstance(st, FUNC):
            out.add(st.name)
    return out


def module_level_values(tree):
    """{name: value text} of module-level `name = value` (one target)."""
    out = {}
    for st in tree.body:
        if isinstance(st, ast.Assign) and len(st.targets) == 1 and isinstance(st.targets[0], ast.Name):
            out[st.targets[0].id] = " ".join(ast.unparse(st.value).split())
    return out


def fingerprint(fn):
    """Shape of a function that depends neither on its own name nor on the names of its variables (every Name and
    parameter is numbered by first occurrence; attribute names, constants and structure are kept).  Docstring excluded."""
    import hashlib
    body = _strip_doc(fn.body) or fn.body
    mod = ast.Module(body=[copy.deepcopy(fn.args)] + [copy.deepcopy(b) for b in body], type_ignores=[])
    num = {}
    for n in _preorder(mod):
        if isinstance(n, ast.Name):
            n.id = num.setdefault(n.id, f"v{len(num)}") if n.id != fn.name else "_SELF_"
        elif isinstance(n, ast.arg):
            n.arg = num.setdefault(n.arg, f"v{len(num)}")
        elif isinstance(n, ast.Attribute) and n.attr == fn.name:
            n.attr = "_SELF_"
        elif isinstance(n, ast.Attribute) and n.attr.startswith("_") and not (n.attr.startswith("__") and n.attr.endswith("__")):
            n.attr = "_PRIVATE_"       # a private attribute may itself be a renamed method: several renames in one commit still match
        elif isinstance(n, FUNC) and n is not fn:
            n.name = num.setdefault(n.name, f"v{len(num)}")
    txt = ast.dump(mod) + "|" + str(len(fn.decorator_list))
    return hashlib.sha1(txt.encode()).hexdigest()[:16]


def ungroup_private_state(trees, ref=None, stats=None):
    """Private module globals grouped into one private namespace object (`class _State: def __init__(self): self.a = ..` ; `_state = _State()` ;
    uses `_state.a`) are the module globals `_a` again: the class and the instance disappear, `_state.a` reads `_a`.  Only when the object is
    used in no other way and no attribute of it is ever rebound."""
    ref = reference() if ref is None else ref
    stats = stats if stats is not None else {}
    for m, tree in trees.items():
        known = set(ref.get("module_names", {}).get(m, []))
        for c in [c for c in tree.body if isinstance(c, ast.ClassDef) and c.name.startswith("_") and c.name not in known and not c.bases and not c.decorator_list]:
            body = _strip_doc(c.body)
            init = [b for b in body if isinstance(b, ast.FunctionDef) and b.name == "__init__"]
            rest = [b for b in body if b not in init and not (isinstance(b, ast.Assign) and len(b.targets) == 1 and isinstance(b.targets[0], ast.Name) and b.targets[0].id == "__slots__")]
            if len(init) != 1 or rest or len(init[0].args.args) != 1 or init[0].args.vararg or init[0].args.kwarg or init[0].args.kwonlyargs:
                continue
            selfn = init[0].args.args[0].arg
            ib = _strip_doc(init[0].body)
            if not ib or not all(isinstance(b, ast.Assign) and len(b.targets) == 1 and isinstance(b.targets[0], ast.Attribute) and isinstance(b.targets[0].value, ast.Name)
                                 and b.targets[0].value.id == selfn and not any(isinstance(x, ast.Name) and x.id == selfn for x in ast.walk(b.value)) for b in ib):
                continue
            fields = {b.targets[0].attr: b.value for b in ib}
            insts = [st for st in tree.body if isinstance(st, ast.Assign) and len(st.targets) == 1 and isinstance(st.targets[0], ast.Name) and isinstance(st.value, ast.Call)
                     and isinstance(st.value.func, ast.Name) and st.value.func.id == c.name and not st.value.args and not st.value.keywords]
            cls_mentions = [n for t in trees.values() for n in ast.walk(t) if isinstance(n, ast.Name) and n.id == c.name]
            if len(insts) != 1 or len(cls_mentions) != 1:
                continue
            X = insts[0].targets[0].id
            names = [n for t in trees.values() for n in ast.walk(t) if isinstance(n, ast.Name) and n.id == X and n is not insts[0].targets[0]]
            attrs = [n for n in ast.walk(tree) if isinstance(n, ast.Attribute) and isinstance(n.value, ast.Name) and n.value.id == X]
            if len(names) != len(attrs) or any(a.attr not in fields or not isinstance(a.ctx, ast.Load) for a in attrs) \
                    or any(isinstance(n, (ast.alias,)) and (n.asname or n.name) == X for t in trees.values() for n in ast.walk(t)):
                continue
            glob = {f: (f if f.startswith("_") else "_" + f) for f in fields}
            taken = {n.id for n in ast.walk(tree) if isinstance(n, ast.Name)} | {a.arg for a in ast.walk(tree) if isinstance(a, ast.arg)}
            if any(g in taken for g in glob.values()):
                continue
            at = tree.body.index(insts[0])
            tree.body[at:at + 1] = [loc(ast.Assign(targets=[ast.Name(id=glob[f], ctx=ast.Store())], value=v), insts[0]) for f, v in fields.items()]
            tree.body.remove(c)
            for a in attrs:
                _replace_node(tree, a, loc(ast.Name(id=glob[a.attr], ctx=ast.Load()), a))
            stats.setdefault("private-state-object-ungrouped", []).append(f"{m}.{X}")


def _private_attr_sequences(trees):
    """{function qualname: [private attribute names it mentions, in source order]}  (attributes of any object; `_x` / `__x`, not dunders)"""
    out = {}
    for m, tree in trees.items():
        for q, f in top_functions(tree, m):
            seq = []
            for n in _preorder(f):
                if isinstance(n, ast.Attribute) and n.attr.startswith("_") and not (n.attr.startswith("__") and n.attr.endswith("__")):
                    seq.append(n.attr)
            out[q] = seq
    return out


def undo_private_attr_renames(trees, ref=None, stats=None):
    """A private attribute / private method of the reference tree that is mentioned nowhere any more, while a new private name is mentioned in exactly
    the positions where it stood (same function, same place in the sequence of private attributes that function mentions), was renamed: the new
    name is replaced by the reference name everywhere (attributes, method definitions, __slots__ strings).  Positions are compared only in functions
    whose sequences have the same length; the mapping must be unanimous, one-to-one, from names the reference does not know to names that vanished."""
    ref = reference() if ref is None else ref
    stats = stats if stats is not None else {}
    want = ref.get("private_attrs")
    if not want:
        return
    have = _private_attr_sequences(trees)
    ref_names = {a for seq in want.values() for a in seq}
    cur_names = {a for seq in have.values() for a in seq}
    votes = {}
    for q, seq in have.items():
        w = want.get(q)
        if w is None or len(w) != len(seq):
            continue
        for a, b in zip(seq, w):
            if a != b:
                votes.setdefault(a, {}).setdefault(b, 0)
                votes[a][b] += 1
    mapping = {}
    for a, tos in votes.items():
        if len(tos) != 1:
            continue
        b = next(iter(tos))
        if a in ref_names or b in cur_names:
            continue
        mapping[a] = b
    if len(set(mapping.values())) != len(mapping):
        return
    if not mapping:
        return
    for tree in trees.values():
        for n in ast.walk(tree):
            if isinstance(n, ast.Attribute) and n.attr in mapping:
                n.attr = mapping[n.attr]
            elif isinstance(n, FUNC) and n.name in mapping:
                n.name = mapping[n.name]
            elif isinstance(n, ast.Assign) and len(n.targets) == 1 and isinstance(n.targets[0], ast.Name) and n.targets[0].id == "__slots__" and isinstance(n.value, (ast.Tuple, ast.List)):
                for e in n.value.elts:
                    if isinstance(e, ast.Constant) and e.value in mapping:
                        e.value = mapping[e.value]
            elif isinstance(n, ast.keyword) and n.arg in mapping:
                pass
    stats.setdefault("private-attributes-renamed-back", []).extend(f"{a}->{b}" for a, b in sorted(mapping.items()))


def undo_function_renames(trees, ref=None, stats=None):
    """Before anything else: a function of the reference tree that vanished while a *new* function with exactly the same
    body (same parameters, same place: module or class) appeared was renamed.  The new name is replaced by the reference
    name everywhere in the package (names, attributes, import aliases) -- provided the reference name occurs nowhere any
    more, so that the replacement is a consistent renaming of one identifier.  trees: {module: ast.Module}."""
    ref = reference() if ref is None else ref
    fps = ref.get("fingerprints", {})
    inv = ref.get("inventory", {})
    if not fps:
        return {}
    idents = set()
    for t in trees.values():
        for n in ast.walk(t):
            if isinstance(n, ast.Name):
                idents.add(n.id)
            elif isinstance(n, ast.Attribute):
                idents.add(n.attr)
            elif isinstance(n, ast.arg):
                idents.add(n.arg)
            elif isinstance(n, ast.alias):
                idents.add(n.name.split(".")[-1])
                if n.asname:
                    idents.add(n.asname)
            elif isinstance(n, FUNC + (ast.ClassDef,)):
                idents.add(n.name)
    def private(name):
        """Only private names can be renamed without changing behaviour: public names are the API, dunder and visit_* methods are looked up by name."""
        return name.startswith("_") and not (name.startswith("__") and name.endswith("__"))
    renames = {}
    for m, tree in trees.items():       # module-level variables first: same value text, reference name gone, new name unknown
        refvals = ref.get("module_values", {}).get(m, {})
        curvals = module_level_values(tree)
        for v, text in refvals.items():
            if v in curvals or v in idents or not private(v):
                continue
            cands = [n for n, t in curvals.items() if t == text and n not in refvals and n not in ref.get("module_names", {}).get(m, []) and private(n)]
            if len(cands) == 1 and cands[0] not in renames and v not in renames.values():
                renames[cands[0]] = v
    for m, tree in trees.items():
        known = set(inv.get(m, []))
        if not known:
            continue
        cur = dict(top_functions(tree, m))
        new = {q: f for q, f in cur.items() if q not in known}
        gone = [q for q in known if q not in cur]
        for v in gone:
            vname = v.rsplit(".", 1)[1].split("#")[0]
            if vname in idents or v not in fps or not private(vname):
                continue
            cands = [q for q, f in new.items() if q.rsplit(".", 1)[0] == v.rsplit(".", 1)[0] and fingerprint(f) == fps[v] and private(q.rsplit(".", 1)[1])]
            if len(cands) == 1:
                nname = cands[0].rsplit(".", 1)[1]
                if nname not in renames and vname not in renames.values() and not (nname.startswith("__") and nname.endswith("__")):
                    renames[nname] = vname
                    del new[cands[0]]
    # a private module-level function that moved to another module of the package (and is imported back): moved home
    homed = []
    for m, tree in trees.items():
        known = set(inv.get(m, []))
        cur = dict(top_functions(tree, m))
        # whole classes that moved (every method of the reference class is gone from this module, the class is imported back)
        gone_cls = {}
        for v in [q for q in known if q not in cur and q.count(".") == 2]:
            gone_cls.setdefault(v.split(".")[1], []).append(v)
        for cname, vs in gone_cls.items():
            if any(isinstance(c, ast.ClassDef) and c.name == cname for c in tree.body):
                continue
            imported = [(st, al) for st in tree.body if isinstance(st, ast.ImportFrom) and st.level >= 1 for al in st.names if (al.asname or al.name) == cname and al.name == cname]
            if len(imported) != 1:
                continue
            st_imp, al = imported[0]
            src_mod = (st_imp.module or "").split(".")[-1]
            src = trees.get(src_mod)
            if src is None or any(q.startswith(f"{src_mod}.{cname}.") for q in inv.get(src_mod, [])):
                continue
            cands = [c for c in src.body if isinstance(c, ast.ClassDef) and c.name == cname]
            if len(cands) != 1:
                continue
            c = cands[0]
            have = {f"{m}.{cname}.{f.name}" for f in c.body if isinstance(f, FUNC)}
            if not set(vs) <= have or any(fingerprint(f) != fps.get(f"{m}.{cname}.{f.name}") for f in c.body if isinstance(f, FUNC) and f"{m}.{cname}.{f.name}" in fps):
                continue
            src.body.remove(c)
            tree.body.append(c)
            st_imp.names.remove(al)
            if not st_imp.names:
                tree.body.remove(st_imp)
            if any(isinstance(n, ast.Name) and n.id == cname for x in src.body for n in ast.walk(x)):
                # still used where it moved to: that module now imports it from its home
                src.body.insert(0, ast.ImportFrom(module=m, names=[ast.alias(name=cname, asname=None)], level=1))
            homed.append(f"class {src_mod}.{cname}->{m}.{cname}")
        cur = dict(top_functions(tree, m))
        for v in [q for q in known if q not in cur and q.count(".") == 1 and q in fps]:
            vname = v.split(".")[1]
            imported = [(st, al) for st in tree.body if isinstance(st, ast.ImportFrom) and st.level >= 1 for al in st.names if (al.asname or al.name) == vname]
            if len(imported) != 1:
                continue
            st_imp, al = imported[0]
            src_mod = (st_imp.module or "").split(".")[-1]
            src = trees.get(src_mod)
            if src is None or f"{src_mod}.{al.name}" in set(inv.get(src_mod, [])):
                continue
            cands = [f for f in src.body if isinstance(f, FUNC) and f.name == al.name and fingerprint(f) == fps[v]]
            if len(cands) != 1:
                continue
            f = cands[0]
            others = [t for mm, t in trees.items() if mm not in (m, src_mod)
                      if any(isinstance(n, ast.ImportFrom) and (n.module or "").split(".")[-1] == src_mod and any(a_.name == al.name for a_ in n.names) for n in ast.walk(t))]
            used_at_home = any(isinstance(n, ast.Name) and n.id == al.name for x in src.body if x is not f for n in ast.walk(x))
            if others:
                continue
            src.body.remove(f)
            if used_at_home:
                src.body.insert(0, ast.ImportFrom(module=m, names=[ast.alias(name=al.name, asname=None)], level=1))
            f.name = vname
            tree.body.append(f)
            st_imp.names.remove(al)
            if not st_imp.names:
                tree.body.remove(st_imp)
            homed.append(f"{src_mod}.{al.name}->{v}")
    if homed and stats is not None:
        stats["functions-moved-back-to-their-module"] = homed
    # a method that became a module-level function of the same module (first parameter = the former receiver): moved back
    moved = []
    for m, tree in trees.items():
        known = set(inv.get(m, []))
        if not known:
            continue
        cur = dict(top_functions(tree, m))
        for v in [q for q in known if q not in cur and q.count(".") == 2 and q in fps]:
            cname, vname = v.split(".")[1], v.split(".")[2].split("#")[0]
            if not private(vname):
                continue
            cls = next((c for c in tree.body if isinstance(c, ast.ClassDef) and c.name == cname), None)
            if cls is None or any(isinstance(x, FUNC) and x.name == vname for x in cls.body):
                continue
            cands = [f for q, f in cur.items() if q.count(".") == 1 and q not in known and f in tree.body and fingerprint(f) == fps[v] and f.name not in renames and private(f.name)]
            if len(cands) != 1:
                continue
            f = cands[0]
            old = f.name
            tree.body.remove(f)
            f.name = vname
            cls.body.append(f)
            for t in trees.values():
                for n in ast.walk(t):
                    if isinstance(n, ast.Call) and isinstance(n.func, ast.Name) and n.func.id == old and n.args and not isinstance(n.args[0], ast.Starred):
                        n.func = ast.copy_location(ast.Attribute(value=n.args[0], attr=vname, ctx=ast.Load()), n.func)
                        n.args = n.args[1:]
                for n in ast.walk(t):
                    if isinstance(n, ast.Name) and n.id == old:
                        n.id = f"{cname}.{vname}"       # a remaining reference by value (rare): spelled as the class attribute
            moved.append(f"{m}.{old}->{v}")
    if moved and stats is not None:
        stats["functions-moved-back-into-class"] = moved
    if not renames:
        return {}
    for t in trees.values():
        for n in ast.walk(t):
            if isinstance(n, ast.Name) and n.id in renames:
                n.id = renames[n.id]
            elif isinstance(n, ast.Attribute) and n.attr in renames:
                n.attr = renames[n.attr]
            elif isinstance(n, FUNC) and n.name in renames:
                n.name = renames[n.name]
            elif isinstance(n, ast.alias):
                last = n.name.split(".")[-1]
                if last in renames:
                    n.name = ".".join(n.name.split(".")[:-1] + [renames[last]])
                if n.asname in renames:
                    n.asname = renames[n.asname]
            elif isinstance(n, ast.keyword) and n.arg in renames:
                pass        # a keyword argument is a parameter name, not a function
    if stats is not None:
        stats["functions-renamed-back"] = [f"{a}->{b}" for a, b in sorted(renames.items())]
    return renames


# ------------------------------------------------------------------------------------------------ annotations, named lambdas
# ------------------------------------------------------------------------------------------------ private record types
def undo_private_records(trees, ref=None, stats=None):
    """A private NamedTuple (class _X(NamedTuple) with annotated fields, or _X = namedtuple("_X", ...)) that the reference does not know is
    a tuple with names: constructor calls become tuple displays, `v.field` becomes `v[i]` where v is known to hold such a record, and a
    name that holds a record and is only indexed is unpacked (`for t in L: f(t[0], t[1])` -> `for _r_a, _r_b in L: f(_r_a, _r_b)`).
    "Known to hold a record": bound from a constructor call, from a function all of whose returns are records (resolved by name through
    the package, fixed point), from an element of a list / a value of a dict attribute into which only records are ever stored, or by
    iterating over such a list.  Anything else keeps its attribute access (and the rules then fail closed)."""
    ref = reference() if ref is None else ref
    stats = stats if stats is not None else {}
    known_names = {n for names in ref.get("module_names", {}).values() for n in names}
    records = {}
    for m, tree in trees.items():
        for st in list(tree.body):
            if isinstance(st, ast.ClassDef) and _is_private(st.name) and st.name not in known_names \
                    and any(ast.unparse(b) in ("NamedTuple", "typing.NamedTuple") for b in st.bases):
                body = _strip_doc(st.body)
                if body and all(isinstance(b, ast.AnnAssign) and isinstance(b.target, ast.Name) and b.value is None for b in body):
                    records[st.name] = ([b.target.id for b in body], m, st)
            elif isinstance(st, ast.ClassDef) and _is_private(st.name) and st.name not in known_names and not st.bases and not st.keywords:
                # a private class that only stores its constructor arguments (__slots__ + __init__, or a dataclass without defaults), optionally with
                # an as_tuple() accessor, is the same record
                body = _strip_doc(st.body)
                deco = [ast.unparse(d.func if isinstance(d, ast.Call) else d) for d in st.decorator_list]
                if deco and all(d in ("dataclass", "dataclasses.dataclass") for d in deco):
                    if body and all(isinstance(b, ast.AnnAssign) and isinstance(b.target, ast.Name) and b.value is None for b in body):
                        records[st.name] = ([b.target.id for b in body], m, st)
                elif not deco:
                    init = [b for b in body if isinstance(b, ast.FunctionDef) and b.name == "__init__"]
                    others = [b for b in body if not (isinstance(b, ast.FunctionDef) and b.name in ("__init__", "as_tuple"))
                              and not (isinstance(b, ast.Assign) and len(b.targets) == 1 and isinstance(b.targets[0], ast.Name) and b.targets[0].id == "__slots__")]
                    if len(init) == 1 and not others:
                        a_ = init[0].args
                        params = [x.arg for x in a_.args[1:]]
                        ib = _strip_doc(init[0].body)
                        plain = not (a_.vararg or a_.kwarg or a_.kwonlyargs or a_.defaults or a_.posonlyargs) and len(ib) == len(params) and all(
                            isinstance(b, ast.Assign) and len(b.targets) == 1 and isinstance(b.targets[0], ast.Attribute) and isinstance(b.targets[0].value, ast.Name)
                            and b.targets[0].value.id == a_.args[0].arg and b.targets[0].attr == p_ and isinstance(b.value, ast.Name) and b.value.id == p_
                            for b, p_ in zip(ib, params))
                        at = [b for b in body if isinstance(b, ast.FunctionDef) and b.name == "as_tuple"]
                        at_ok = all(len(_strip_doc(b.body)) == 1 and isinstance(_strip_doc(b.body)[0], ast.Return) and isinstance(_strip_doc(b.body)[0].value, ast.Tuple)
                                    and [ast.unparse(e) for e in _strip_doc(b.body)[0].value.elts] == [f"{b.args.args[0].arg}.{p_}" for p_ in params] for b in at)
                        if plain and params and at_ok:
                            records[st.name] = (params, m, st)
            elif isinstance(st, ast.Assign) and len(st.targets) == 1 and isinstance(st.targets[0], ast.Name) and _is_private(st.targets[0].id) \
                    and st.targets[0].id not in known_names and isinstance(st.value, ast.Call) and ast.unparse(st.value.func) in ("namedtuple", "collections.namedtuple") \
                    and len(st.value.args) == 2 and not st.value.keywords:
                f = st.value.args[1]
                fields = None
                if isinstance(f, ast.Constant) and isinstance(f.value, str):
                    fields = f.value.replace(",", " ").split()
                elif isinstance(f, (ast.List, ast.Tuple)) and all(isinstance(e, ast.Constant) and isinstance(e.value, str) for e in f.elts):
                    fields = [e.value for e in f.elts]
                if fields:
                    records[st.targets[0].id] = (fields, m, st)
    if not records:
        return

    def ctor(e):
        return e.func.id if isinstance(e, ast.Call) and isinstance(e.func, ast.Name) and e.func.id in records else None
    funcs = [f for t in trees.values() for f in ast.walk(t) if isinstance(f, FUNC)]
    # containers: attribute name -> record, when every store into `<obj>.<attr>` / `<obj>.<attr>[k]` is an empty container, a record, or a
    # list / comprehension of records
    attr_elem = {}
    bad_attr = set()
    for t in trees.values():
        for c in ast.walk(t):
            if isinstance(c, ast.ClassDef):
                for x in ast.walk(c):
                    if not hasattr(x, "_rec_cls") or isinstance(x, ast.ClassDef) is False:
                        x._rec_cls = getattr(x, "_rec_cls", None) or c.name

    def akey(attr_node):
        """(class, attribute) for `self.<attr>` written inside a class, else None: only the object's own attributes are typed"""
        if isinstance(attr_node, ast.Attribute) and isinstance(attr_node.value, ast.Name) and attr_node.value.id == "self" and getattr(attr_node, "_rec_cls", None):
            return (attr_node._rec_cls, attr_node.attr)
        return None
    for t in trees.values():
        for n in ast.walk(t):
            tgt_val = []
            if isinstance(n, ast.Assign):
                tgt_val = [(tg, n.value) for tg in n.targets]
            for tg, v in tgt_val:
                if isinstance(tg, ast.Attribute):
                    a = akey(tg)
                    if a is None:
                        continue
                    r = None
                    if isinstance(v, ast.ListComp) and ctor(v.elt):
                        r = ctor(v.elt)
                    elif isinstance(v, (ast.List, ast.Tuple)) and v.elts and all(ctor(e) for e in v.elts) and len({ctor(e) for e in v.elts}) == 1:
                        r = ctor(v.elts[0])
                    elif (isinstance(v, (ast.List, ast.Dict)) and not (v.elts if isinstance(v, ast.List) else v.keys)):
                        continue
                    if r is None or attr_elem.get(a, r) != r:
                        bad_attr.add(a)
                    else:
                        attr_elem[a] = r
                elif isinstance(tg, ast.Subscript) and isinstance(tg.value, ast.Attribute):
                    a = akey(tg.value)
                    if a is None:
                        continue
                    r = ctor(v)
                    if r is None or attr_elem.get(a, r) != r:
                        bad_attr.add(a)
                    else:
                        attr_elem[a] = r
        for n in ast.walk(t):
            if isinstance(n, ast.Call) and isinstance(n.func, ast.Attribute) and n.func.attr in ("append", "add", "insert", "extend", "update", "setdefault") \
                    and isinstance(n.func.value, ast.Attribute):
                a = akey(n.func.value)
                r = ctor(n.args[-1]) if n.args and n.func.attr in ("append", "add", "insert") else None
                if a in attr_elem and r != attr_elem[a]:
                    bad_attr.add(a)
    for a in bad_attr:
        attr_elem.pop(a, None)
    returns = {}

    def typ(e, env):
        """record name an expression is known to evaluate to, or None"""
        if ctor(e):
            return ctor(e)
        if isinstance(e, ast.Name):
            return env.get(e.id)
        if isinstance(e, ast.Subscript) and isinstance(e.value, ast.Attribute) and akey(e.value) in attr_elem:
            return attr_elem[akey(e.value)]
        if isinstance(e, ast.Call):
            name = e.func.id if isinstance(e.func, ast.Name) else e.func.attr if isinstance(e.func, ast.Attribute) else None
            return returns.get(name)
        return None

    def elem_typ(e, env, lists):
        while isinstance(e, ast.Call) and isinstance(e.func, ast.Name) and e.func.id in ("reversed", "list", "tuple", "sorted", "iter") and len(e.args) == 1:
            e = e.args[0]
        if isinstance(e, ast.Name):
            return lists.get(e.id)
        if isinstance(e, ast.Attribute) and akey(e) in attr_elem:
            return attr_elem[akey(e)]
        return None

    def local_env(fn):
        lists = {}
        cand = {}
        for n in ast.walk(fn):
            if isinstance(n, ast.Assign) and len(n.targets) == 1 and isinstance(n.targets[0], ast.Name):
                v = n.value
                if isinstance(v, ast.List) and not v.elts:
                    cand.setdefault(n.targets[0].id, set())
                elif isinstance(v, ast.ListComp) and ctor(v.elt):
                    cand.setdefault(n.targets[0].id, set()).add(ctor(v.elt))
                else:
                    cand.setdefault(n.targets[0].id, set()).add(None) if n.targets[0].id in cand else None
            if isinstance(n, ast.Call) and isinstance(n.func, ast.Attribute) and isinstance(n.func.value, ast.Name) and n.func.attr in ("append", "insert", "extend"):
                cand.setdefault(n.func.value.id, set()).add(ctor(n.args[-1]) if n.args and n.func.attr != "extend" else None)
        for k, v in cand.items():
            if len(v) == 1 and None not in v:
                lists[k] = next(iter(v))
        env = {}
        for _ in range(3):
            binds = {}
            for n in ast.walk(fn):
                if isinstance(n, ast.Assign) and len(n.targets) == 1 and isinstance(n.targets[0], ast.Name):
                    binds.setdefault(n.targets[0].id, []).append(typ(n.value, env))
                elif isinstance(n, (ast.For, ast.comprehension)) and isinstance(n.target, ast.Name):
                    binds.setdefault(n.target.id, []).append(elem_typ(n.iter, env, lists))
                elif isinstance(n, (ast.For, ast.comprehension, ast.With)):
                    for x in ast.walk(getattr(n, "target", None) or ast.Tuple(elts=[i.optional_vars for i in n.items if i.optional_vars is not None], ctx=ast.Store())):
                        if isinstance(x, ast.Name):
                            binds.setdefault(x.id, []).append(None)
                elif isinstance(n, ast.Assign):
                    for tg in n.targets:
                        for x in ast.walk(tg):
                            if isinstance(x, ast.Name) and isinstance(x.ctx, ast.Store):
                                binds.setdefault(x.id, []).append(None)
                elif isinstance(n, (ast.AugAssign, ast.NamedExpr)) and isinstance(n.target, ast.Name):
                    binds.setdefault(n.target.id, []).append(None)
            for a in fn.args.posonlyargs + fn.args.args + fn.args.kwonlyargs:
                binds.setdefault(a.arg, []).append(None)
            env = {k: v[0] for k, v in binds.items() if v and all(x is not None and x == v[0] for x in v)}
        return env
    for _ in range(4):          # return types by name, to a fixed point
        new = {}
        byname = {}
        for f in funcs:
            byname.setdefault(f.name, []).append(f)
        for name, fs in byname.items():
            ts = set()
            for f in fs:
                env = local_env(f)
                rets = [n for n in ast.walk(f) if isinstance(n, ast.Return)]
                own = [n for n in rets if _owner_function(n, f)]
                ts |= {typ(r.value, env) if r.value is not None else None for r in own} or {None}
            if len(ts) == 1 and None not in ts:
                new[name] = next(iter(ts))
        if new == returns:
            break
        returns = new
    n_fields = n_ctor = n_unpack = 0
    # `x.as_tuple()` when only records define as_tuple: the record is the tuple
    definers = [c.name for t in trees.values() for c in ast.walk(t) if isinstance(c, ast.ClassDef) and any(isinstance(b, ast.FunctionDef) and b.name == "as_tuple" for b in c.body)]
    if definers and all(d in records for d in definers):
        for t in trees.values():
            for n in ast.walk(t):
                for fld, val in ast.iter_fields(n):
                    vals = val if isinstance(val, list) else [val]
                    for k, x in enumerate(vals):
                        if isinstance(x, ast.Call) and isinstance(x.func, ast.Attribute) and x.func.attr == "as_tuple" and not x.args and not x.keywords:
                            if isinstance(val, list):
                                val[k] = x.func.value
                            else:
                                setattr(n, fld, x.func.value)
    for f in funcs:
        env = local_env(f)
        if not env:
            continue
        for n in ast.walk(f):
            for fld, val in ast.iter_fields(n):
                vals = val if isinstance(val, list) else [val]
                for k, x in enumerate(vals):
                    if isinstance(x, ast.Call) and isinstance(x.func, ast.Attribute) and x.func.attr == "as_tuple" and not x.args and not x.keywords \
                            and isinstance(x.func.value, ast.Name) and env.get(x.func.value.id) in records:
                        if isinstance(val, list):
                            val[k] = x.func.value
                        else:
                            setattr(n, fld, x.func.value)
                        n_fields += 1
                        continue
                    if isinstance(x, ast.Attribute) and isinstance(x.ctx, ast.Load) and isinstance(x.value, ast.Name) and env.get(x.value.id) in records \
                            and x.attr in records[env[x.value.id]][0]:
                        sub = loc(ast.Subscript(value=x.value, slice=ast.Constant(value=records[env[x.value.id]][0].index(x.attr)), ctx=ast.Load()), x)
                        if isinstance(val, list):
                            val[k] = sub
                        else:
                            setattr(n, fld, sub)
                        n_fields += 1
        # a record-holding name that is only indexed with constants: unpack it where it is bound
        for name, r in env.items():
            uses = [x for x in ast.walk(f) if isinstance(x, ast.Name) and x.id == name]
            loads = [x for x in uses if isinstance(x.ctx, ast.Load)]
            subs = [x for x in ast.walk(f) if isinstance(x, ast.Subscript) and isinstance(x.value, ast.Name) and x.value.id == name and isinstance(x.ctx, ast.Load)
                    and isinstance(x.slice, ast.Constant) and isinstance(x.slice.value, int) and 0 <= x.slice.value < len(records[r][0])]
            stores = [x for x in uses if isinstance(x.ctx, ast.Store)]
            if not loads or len(subs) != len(loads) or len(stores) != 1:
                continue
            fields = records[r][0]
            fresh = [f"_r_{fl}" for fl in fields]
            if any(isinstance(x, ast.Name) and x.id in fresh for x in ast.walk(f)):
                continue
            st = stores[0]
            tup = loc(ast.Tuple(elts=[ast.Name(id=v, ctx=ast.Store()) for v in fresh], ctx=ast.Store()), st)
            if not _replace_node(f, st, tup):
                continue
            for x in subs:
                _replace_node(f, x, loc(ast.Name(id=fresh[x.slice.value], ctx=ast.Load()), x))
            n_unpack += 1
    for t in trees.values():
        for n in ast.walk(t):
            for fld, val in ast.iter_fields(n):
                vals = val if isinstance(val, list) else [val]
                for k, x in enumerate(vals):
                    if isinstance(x, ast.Call) and ctor(x) and not any(isinstance(a, ast.Starred) for a in x.args) and all(kw.arg for kw in x.keywords):
                        fields = records[ctor(x)][0]
                        given = dict(zip(fields, x.args))
                        given.update({kw.arg: kw.value for kw in x.keywords})
                        if list(given) and all(fl in given for fl in fields) and len(given) == len(fields):
                            tup = loc(ast.Tuple(elts=[given[fl] for fl in fields], ctx=ast.Load()), x)
                            if isinstance(val, list):
                                val[k] = tup
                            else:
                                setattr(n, fld, tup)
                            n_ctor += 1
    for name, (fields, m, node) in records.items():
        if not any(isinstance(x, ast.Name) and x.id == name for t in trees.values() for x in ast.walk(t) if x is not node and not (isinstance(node, ast.Assign) and x is node.targets[0])):
            trees[m].body.remove(node)
    stats["private-records-undone"] = stats.get("private-records-undone", 0) + len(records)
    stats.setdefault("records", []).append(f"{sorted(records)}: {n_ctor} constructions, {n_fields} field reads, {n_unpack} unpacked")


def _owner_function(node, fn):
    """True when the innermost function containing `node` (searching inside fn) is fn itself."""
    for g in ast.walk(fn):
        if g is not fn and isinstance(g, FUNC + (ast.Lambda,)) and any(x is node for x in ast.walk(g)):
            return False
    return True


def strip_diagnostics(trees, stats=None):
    """Diagnostics that cannot influence a property: calls on a module-level logger (`_log = logging.getLogger(..)`; `_log.debug(fmt, a, b)`
    with arguments that are plain names / attribute chains / constants / subscripts of those) are dropped, together with the logger and an
    `import logging` nothing else uses; `raise X from Y` is `raise X` (only __cause__ / __suppress_context__ differ)."""
    stats = stats if stats is not None else {}
    n_log = n_from = 0

    def plain(e):
        if isinstance(e, (ast.Name, ast.Constant)):
            return True
        if isinstance(e, ast.Attribute):
            return plain(e.value)
        if isinstance(e, ast.Subscript):
            return plain(e.value) and plain(e.slice)
        if isinstance(e, (ast.Tuple, ast.List)):
            return all(plain(x) for x in e.elts)
        if isinstance(e, ast.Call) and isinstance(e.func, ast.Name) and e.func.id in ("len", "id", "type") and len(e.args) == 1 and not e.keywords:
            return plain(e.args[0])
        return False
    for tree in trees.values():
        loggers = set()
        for st in tree.body:
            if isinstance(st, ast.Assign) and len(st.targets) == 1 and isinstance(st.targets[0], ast.Name) and isinstance(st.value, ast.Call) \
                    and ast.unparse(st.value.func) in ("logging.getLogger", "getLogger"):
                loggers.add(st.targets[0].id)
        for n in ast.walk(tree):
            if isinstance(n, ast.Raise) and n.cause is not None and plain(n.cause):
                n.cause = None
                n_from += 1
        if not loggers:
            continue
        for holder in ast.walk(tree):
            for fld in ("body", "orelse", "finalbody"):
                block = getattr(holder, fld, None)
                if not isinstance(block, list) or not block or not isinstance(block[0], ast.stmt):
                    continue
                out = []
                for st in block:
                    if isinstance(st, ast.Expr) and isinstance(st.value, ast.Call) and isinstance(st.value.func, ast.Attribute) and isinstance(st.value.func.value, ast.Name) \
                            and st.value.func.value.id in loggers and st.value.func.attr in ("debug", "info", "warning", "error", "log", "exception", "critical") \
                            and all(plain(a) for a in st.value.args) and all(plain(k.value) for k in st.value.keywords):
                        n_log += 1
                        continue
                    out.append(st)
                if not out:
                    out = [ast.copy_location(ast.Pass(), block[0])]
                setattr(holder, fld, out)
        used = {x.id for x in ast.walk(tree) if isinstance(x, ast.Name) and isinstance(x.ctx, ast.Load)}
        tree.body = [st for st in tree.body if not (isinstance(st, ast.Assign) and len(st.targets) == 1 and isinstance(st.targets[0], ast.Name)
                                                    and st.targets[0].id in loggers and st.targets[0].id not in used)]
        used = {x.id for x in ast.walk(tree) if isinstance(x, ast.Name) and isinstance(x.ctx, ast.Load)}
        tree.body = [st for st in tree.body if not (isinstance(st, ast.Import) and len(st.names) == 1 and st.names[0].name == "logging" and (st.names[0].asname or "logging") not in used)]
    # except E as err: where err is no longer read -> except E:
    for tree in trees.values():
        for h in ast.walk(tree):
            if isinstance(h, ast.ExceptHandler) and h.name and not any(isinstance(x, ast.Name) and x.id == h.name for b in h.body for x in ast.walk(b)):
                h.name = None       # bound and never read: nothing observes it
    if n_log:
        stats["logging-calls-dropped"] = stats.get("logging-calls-dropped", 0) + n_log
    if n_from:
        stats["raise-from-dropped"] = stats.get("raise-from-dropped", 0) + n_from


def strip_annotations(trees, stats=None):
    """Type hints have no runtime meaning in ptera's own source (nothing reads the annotations of ptera's functions): parameter and
    return annotations are dropped, `x: T = v` is `x = v`, a bare `x: T` is nothing; `NAME = lambda a: E` is `def NAME(a): return E`
    (same function up to its __name__).  Done for the whole package before functions are compared with the reference."""
    stats = stats if stats is not None else {}
    n_ann = n_lam = 0
    for tree in trees.values():
        for n in ast.walk(tree):
            if isinstance(n, FUNC + (ast.Lambda,)):
                a = n.args
                for x in a.posonlyargs + a.args + a.kwonlyargs + [y for y in (a.vararg, a.kwarg) if y]:
                    if x.annotation is not None:
                        x.annotation = None
                        n_ann += 1
                if isinstance(n, FUNC) and n.returns is not None:
                    n.returns = None
                    n_ann += 1
        for holder in ast.walk(tree):
            for fld in ("body", "orelse", "finalbody"):
                block = getattr(holder, fld, None)
                if not isinstance(block, list) or not block or not isinstance(block[0], ast.stmt):
                    continue
                out = []
                for st in block:
                    if isinstance(st, ast.AnnAssign):
                        n_ann += 1
                        if st.value is not None:
                            out.append(ast.copy_location(ast.Assign(targets=[st.target], value=st.value), st))
                        continue
                    if isinstance(st, ast.Assign) and len(st.targets) == 1 and isinstance(st.targets[0], ast.Name) and isinstance(st.value, ast.Lambda):
                        lam = st.value
                        fn = ast.FunctionDef(name=st.targets[0].id, args=lam.args, body=[ast.copy_location(ast.Return(value=lam.body), lam.body)], decorator_list=[],
                                             returns=None, type_comment=None)
                        if "type_params" in ast.FunctionDef._fields:
                            fn.type_params = []
                        out.append(ast.copy_location(fn, st))
                        n_lam += 1
                        continue
                    out.append(st)
                if not out:
                    out = [ast.copy_location(ast.Pass(), block[0])]
                setattr(holder, fld, out)
        ast.fix_missing_locations(tree)
    if n_ann:
        stats["annotations-dropped"] = stats.get("annotations-dropped", 0) + n_ann
    if n_lam:
        stats["named-lambda->def"] = stats.get("named-lambda->def", 0) + n_lam


# ------------------------------------------------------------------------------------------------ private call conventions
def _is_private(name):
    return name.startswith("_") and not (name.startswith("__") and name.endswith("__"))


def _private_callables(trees):
    """{(kind, name): [(def node, drop_first)]}: kind "name" = reached as NAME(...): module-level or nested private functions and private
    classes (through __init__); kind "attr" = reached as <obj>.NAME(...): private methods."""
    defs = {}
    for m, tree in trees.items():
        for n in ast.walk(tree):
            if isinstance(n, ast.ClassDef):
                for b in n.body:
                    if isinstance(b, FUNC):
                        b._owner_class = n
        for n in ast.walk(tree):
            if isinstance(n, FUNC) and _is_private(n.name):
                owner = getattr(n, "_owner_class", None)
                static = any(isinstance(d, ast.Name) and d.id == "staticmethod" for d in n.decorator_list)
                if owner is not None:
                    defs.setdefault(("attr", n.name), []).append((n, not static))
                else:
                    defs.setdefault(("name", n.name), []).append((n, False))
            elif isinstance(n, ast.ClassDef) and _is_private(n.name):
                init = next((b for b in n.body if isinstance(b, FUNC) and b.name == "__init__"), None)
                if init is not None:
                    defs.setdefault(("name", n.name), []).append((init, True))
    return defs


def _signature(fn, drop_first):
    a = fn.args
    params = [x.arg for x in a.posonlyargs + a.args]
    dflt = dict(zip(params[len(params) - len(a.defaults):], a.defaults)) if a.defaults else {}
    if drop_first:
        params = params[1:]
    return params, dflt


def private_signatures(trees):
    out = {}
    for (kind, name), ds in _private_callables(trees).items():
        sigs = {tuple(_signature(f, d)[0]) for f, d in ds}
        if len(sigs) == 1 and not any(f.args.vararg or f.args.kwarg for f, d in ds):
            out[f"{kind}:{name}"] = list(sigs.pop())
    return out


def normalise_private_calls(trees, ref=None, stats=None):
    """Calling conventions of PRIVATE callables (underscore names: never part of the API) are made canonical before anything is compared:
    (A) keyword arguments at their call sites become positional in the order of the definition (gaps filled with the definition's defaults);
    (B) when the definition has the parameters of the reference definition in another order (or gives a default to a parameter the
    reference requires), definition and call sites are put back into the reference order -- the default a caller relied on is written
    out at the call site, so a changed default stays visible there."""
    ref = reference() if ref is None else ref
    stats = stats if stats is not None else {}
    refsigs = ref.get("signatures", {})
    defs = _private_callables(trees)
    sites, loose = {}, {}
    for tree in trees.values():
        for n in ast.walk(tree):
            if isinstance(n, ast.Call):
                f = n.func
                key = ("name", f.id) if isinstance(f, ast.Name) else ("attr", f.attr) if isinstance(f, ast.Attribute) else None
                if key in defs:
                    sites.setdefault(key, []).append(n)
                    f._is_callee = True
    for tree in trees.values():
        for n in ast.walk(tree):
            key = ("name", n.id) if isinstance(n, ast.Name) and isinstance(n.ctx, ast.Load) else ("attr", n.attr) if isinstance(n, ast.Attribute) and isinstance(n.ctx, ast.Load) else None
            if key in defs and not getattr(n, "_is_callee", False):
                loose[key] = loose.get(key, 0) + 1          # handed around as a value: callers we cannot see
    for key, ds in defs.items():
        sigs = {tuple(_signature(f, d)[0]) for f, d in ds}
        if len(sigs) != 1 or any(f.args.vararg or f.args.kwarg or f.args.posonlyargs for f, d in ds):
            continue
        params = list(sigs.pop())
        calls = sites.get(key, [])
        if any(isinstance(a, ast.Starred) for c in calls for a in c.args) or any(k.arg is None for c in calls for k in c.keywords):
            continue
        dfl = [_signature(f, d)[1] for f, d in ds]
        if any(sorted(x) != sorted(dfl[0]) or any(ast.dump(x[k]) != ast.dump(dfl[0][k]) for k in x) for x in dfl[1:]):
            continue
        dflt = dfl[0]
        order = params
        want = refsigs.get(f"{key[0]}:{key[1]}")
        reordered = False
        if want is not None and want != params and sorted(want) == sorted(params) and not loose.get(key):
            order, reordered = list(want), True
        # defaults that survive: a trailing block in the final order
        keep = set()
        for p_ in reversed(order):
            if p_ in dflt:
                keep.add(p_)
            else:
                break
        if not reordered:
            keep = set(dflt)
        ok = True
        plans = []
        for c in calls:
            bound = dict(zip(params, c.args))
            extra = []
            if len(c.args) > len(params):
                ok = False
                break
            for k in c.keywords:
                if k.arg in params and k.arg not in bound:
                    bound[k.arg] = k.value
                else:
                    extra.append(k)
            explicit = [i for i, p_ in enumerate(order) if p_ in bound]
            need = [i for i, p_ in enumerate(order) if p_ not in keep]
            last = max(explicit + need) if explicit + need else -1
            new_args = []
            for p_ in order[:last + 1]:
                if p_ in bound:
                    new_args.append(bound[p_])
                elif p_ in dflt:
                    new_args.append(copy.deepcopy(dflt[p_]))
                else:
                    ok = False
            plans.append((c, new_args, extra))
        if not ok:
            continue
        changed = 0
        for c, new_args, extra in plans:
            if len(new_args) != len(c.args) or any(a is not b for a, b in zip(new_args, c.args)) or len(extra) != len(c.keywords):
                changed += 1
            c.args, c.keywords = new_args, extra
        for f, drop in ds:
            if not loose.get(key):
                f._calls_positional = True
        if changed:
            stats["private-call-keywords->positional"] = stats.get("private-call-keywords->positional", 0) + changed
        if reordered:
            for f, drop in ds:
                a = f.args
                head = a.args[:1] if drop else []
                byname = {x.arg: x for x in a.args}
                a.args = head + [byname[p_] for p_ in order]
                a.defaults = [dflt[p_] for p_ in order if p_ in keep]
            stats.setdefault("private-signature-reordered", []).append(f"{key[1]}({', '.join(params)}) -> ({', '.join(order)})")


def build_reference(root):
    """Inventory and role tables of the tree under `root` (run by tools_reference.py on the reference tree only)."""
    pkg = os.path.join(root, "ptera")
    inv, trees = {}, {}
    for fn in sorted(os.listdir(pkg)):
        if fn.endswith(".py"):
            m = fn[:-3]
            with open(os.path.join(pkg, fn), encoding="utf8") as f:
                trees[m] = ast.parse(f.read())
            inv[m] = sorted(q for q, _ in top_functions(trees[m], m))
    ref = {"inventory": inv, "roles": {}, "fingerprints": {q: fingerprint(f) for m, tree in trees.items() for q, f in top_functions(tree, m)},
           "module_names": {m: sorted(module_level_names(tree)) for m, tree in trees.items()},
           "module_values": {m: module_level_values(tree) for m, tree in trees.items()}}
    strip_annotations(trees)
    inv = {m: sorted(q for q, _ in top_functions(t, m)) for m, t in trees.items()}
    ref["inventory"] = inv
    ref["fingerprints"] = {q: fingerprint(f) for m, tree in trees.items() for q, f in top_functions(tree, m)}
    normalise_private_calls(trees, ref={}, stats={})
    ref["signatures"] = private_signatures(trees)
    ref["nested"] = {q: sorted({n.name for n in ast.walk(f) if isinstance(n, FUNC) and n is not f}) for m, tree in trees.items() for q, f in top_functions(tree, m)}
    ref["private_attrs"] = _private_attr_sequences(trees)
    roles = {}
    for m, tree in trees.items():
        normalise(tree, m, ref=ref)
        for q, f in top_functions(tree, m):
            roles[q] = roles_of(f)
    ref["roles"] = roles
    return ref
