"""Obligations, findings, known-finding matching, evidence files and exit codes."""
import json
import os
import sys
import time

VERIF = os.path.dirname(os.path.dirname(os.path.abspath(__file__)))
KNOWN_PATH = os.path.join(VERIF, "known_findings.json")


_INVENTORY = None


def load_inventory():
    """{property: [obligation keys produced on the pinned tree at the quick tier]} (sa/data/obligation_keys.json, written by tools_reference.py)"""
    global _INVENTORY
    if _INVENTORY is None:
        path = os.path.join(VERIF, "sa", "data", "obligation_keys.json")
        try:
            with open(path) as f:
                _INVENTORY = json.load(f)
        except (OSError, ValueError):
            _INVENTORY = {}
    return _INVENTORY


def load_known():
    if not os.path.exists(KNOWN_PATH):
        return {"findings": [], "fixed": []}
    with open(KNOWN_PATH) as f:
        return json.load(f)


class Obligation:
    __slots__ = ("rule", "key", "ok", "where", "msg", "detail", "nontrivial")

    def __init__(self, rule, key, ok, where, msg, detail=None, nontrivial=True):
        self.rule, self.key, self.ok, self.where, self.msg = rule, key, ok, where, msg
        self.detail, self.nontrivial = detail, nontrivial

    def as_dict(self):
        d = {"rule": self.rule, "key": self.key, "holds": self.ok, "where": self.where, "what": self.msg}
        if self.detail is not None:
            d["detail"] = self.detail
        return d


class Check:
    """One run of the checker for one property."""

    def __init__(self, pid, tier, title=""):
        self.pid, self.tier, self.title = pid, tier, title
        self.t0 = time.time()
        self.obligations = []
        self.rules = {}          # rule id -> text
        self.analysed = {}       # free-form counters: functions, paths, templates, call sites ...
        self.samples = []
        self.assumptions = []
        self.not_decided = []
        self.explanation = ""
        self.min_instances = {}  # rule -> minimum number of obligations confirmed by hand
        self.fixture_results = []

    # ---- declaring ------------------------------------------------------------------------------
    def rule(self, rid, text, min_instances=1):
        self.rules[rid] = text
        self.min_instances[rid] = min_instances

    def ob(self, rule, key, ok, where, msg, detail=None, nontrivial=True):
        """Record one obligation instance.  `key` identifies the construct (no line numbers)."""
        if rule not in self.rules:
            raise RuntimeError(f"undeclared rule {rule}")
        full = f"{rule}:{key}"
        self.obligations.append(Obligation(rule, full, bool(ok), where, msg, detail, nontrivial))
        return bool(ok)

    def fixture(self, rule, name, expected_fire, fired):
        """A rule must fire on its positive control and stay silent on its negative one, on every run."""
        ok = bool(expected_fire) == bool(fired)
        self.fixture_results.append({"rule": rule, "fixture": name, "expected_fire": bool(expected_fire),
                                     "fired": bool(fired), "ok": ok})
        if not ok:
            from .core import AnalysisError
            raise AnalysisError(f"self-test of rule {rule} failed on fixture {name}: expected "
                                f"{'a report' if expected_fire else 'silence'}, got {'a report' if fired else 'silence'}")

    def count(self, what, n=1):
        self.analysed[what] = self.analysed.get(what, 0) + n

    def sample(self, s, limit=40):
        if len(self.samples) < limit:
            self.samples.append(s)

    # ---- finishing ------------------------------------------------------------------------------
    def finish(self):
        from .core import AnalysisError
        # vacuity guard
        per_rule = {}
        for o in self.obligations:
            per_rule[o.rule] = per_rule.get(o.rule, 0) + 1
        for rid, mn in self.min_instances.items():
            if per_rule.get(rid, 0) < mn:
                raise AnalysisError(f"rule {rid} matched {per_rule.get(rid, 0)} instance(s), fewer than the "
                                    f"{mn} confirmed by hand on the pinned tree (vacuous rule = broken analysis)")
        known = load_known()
        open_keys = {}
        for k in known.get("findings", []):
            if self.pid in k.get("properties", [k.get("property")]):
                open_keys[k["key"]] = k
        failing = [o for o in self.obligations if not o.ok]
        seen, listed, unlisted = set(), [], []
        for o in failing:
            if o.key in seen:
                continue
            seen.add(o.key)
            (listed if o.key in open_keys else unlisted).append(o)
        for o in listed:
            print(f"KNOWN-FINDING: property={self.pid} {o.key} -- {open_keys[o.key]['what_fails']}")
        stale = [k for k in open_keys if k not in seen and open_keys[k].get("tier", "quick") in ("quick", self.tier)]
        for k in stale:
            print(f"NOTE: listed finding no longer reported on this tree: {k}")
        replay = None
        if unlisted:
            outdir = os.environ.get("VERIF_OUT") or os.path.join(VERIF, "out")
            os.makedirs(outdir, exist_ok=True)
            replay = os.path.join(outdir, f"replay_{self.pid}.json")
            with open(replay, "w") as f:
                json.dump({"property": self.pid, "tier": self.tier,
                           "findings": [o.as_dict() for o in unlisted]}, f, indent=1)
            for o in unlisted:
                print(f"  {o.where}: [{o.rule}] {o.msg}\n      key: {o.key}")
            print(f"VIOLATION property={self.pid} replay={replay}")
        # inventory: every obligation that was decided on the pinned tree should still be produced (holding or failing).  One that has
        # disappeared means a rule no longer finds its construct on this tree: it is listed (stdout NOTE + evidence `not_decided`), never
        # silently dropped; the self-test treats such a note on the unchanged tree or on a behaviour-preserving rewrite as a failure.
        self.vanished = []
        if os.environ.get("VERIF_KEY_INVENTORY", "1") != "0":
            inv = load_inventory().get(self.pid)
            if inv:
                have = {o.key for o in self.obligations}
                self.vanished = [k for k in inv if k not in have]
                for k in self.vanished[:10]:
                    print(f"NOTE: obligation of the pinned tree not produced on this tree (construct not found): {k}")
                if self.vanished:
                    self.not_decided.append(f"{len(self.vanished)} obligation(s) decided on the pinned tree could not be located on this tree: " + "; ".join(self.vanished[:6]))
        self._write_evidence(len(unlisted), listed, stale)
        n = len(self.obligations)
        print(f"{self.pid} [{self.tier}] obligations={n} discharged={n - len(failing)} "
              f"known-findings={len(listed)} violations={len(unlisted)} wall={time.time() - self.t0:.2f}s")
        return 1 if unlisted else 0

    def _write_evidence(self, violations, listed, stale):
        n = len(self.obligations)
        failing = [o for o in self.obligations if not o.ok]
        distinct = len({o.key for o in self.obligations if o.nontrivial})
        per_rule = {}
        for o in self.obligations:
            r = per_rule.setdefault(o.rule, {"instances": 0, "holding": 0})
            r["instances"] += 1
            r["holding"] += int(o.ok)
        samples = list(self.samples)
        for o in self.obligations[:: max(1, n // 12)][:12]:
            samples.append(o.as_dict())
        ev = {
            "property_id": self.pid,
            "tier": self.tier,
            "seed": int(os.environ.get("VERIF_SEED", "0") or 0),
            "level": "other",
            "coverage": {
                "explanation": self.explanation,
                "evaluations": n,
                "distinct_nontrivial": distinct,
                "rule": "one evaluation = one obligation instance (rule x construct) decided from the parsed "
                        "source of /repo; distinct = distinct rule:construct keys whose anchor was found and "
                        "whose premise is not vacuous",
                "obligations": n,
                "discharged": n - len(failing),
                "known_findings_reported": [o.key for o in listed],
                "listed_findings_not_reproduced": stale,
                "rules": self.rules,
                "per_rule": per_rule,
                "analysed": self.analysed,
                "fixtures": self.fixture_results,
                "not_decided": self.not_decided,
                "samples": samples,
                "exhaustive": True,
            },
            "assumptions": self.assumptions,
            "wall_s": round(time.time() - self.t0, 3),
            "violations": violations,
        }
        if os.environ.get("VERIF_NO_EVIDENCE"):
            return
        os.makedirs(os.path.join(VERIF, "evidence"), exist_ok=True)
        with open(os.path.join(VERIF, "evidence", f"{self.pid}.json"), "w") as f:
            json.dump(ev, f, indent=1, default=str)
