"""The constructs that bind a name in (or outside) the enclosing function scope in *this* interpreter.

This is the independent oracle for the collector rules (C10, R02.1): each row is validated on every run, statically,
against (i) the ASDL of the running `ast` module (every class with an identifier-valued field must be known here) and
(ii) `symtable` on a three-line snippet.  Nothing of ptera is involved.
"""
import ast
import symtable

from .core import AnalysisError
from .xform.terms import ASDL

# id, how the name is bound, node class, snippet body (bound name is always `v`), local in f?, provenance Python scoping implies
ROWS = [
    ("param", "arg", "arg", None, True, "argument"),
    ("assign-name", "Name(Store)", "Assign", "v = 1", True, "body"),
    ("assign-tuple", "Name(Store)", "Assign", "v, w = 1, 2", True, "body"),
    ("assign-list", "Name(Store)", "Assign", "[v, w] = 1, 2", True, "body"),
    ("assign-starred", "Name(Store)", "Assign", "w, *v = 1, 2", True, "body"),
    ("assign-chained", "Name(Store)", "Assign", "w = v = 1", True, "body"),
    ("augassign", "Name(Store)", "AugAssign", "v = 0\n    v += 1", True, "body"),
    ("annassign", "Name(Store)", "AnnAssign", "v: int = 1", True, "body"),
    ("for-target", "Name(Store)", "For", "for v in ():\n        pass", True, "body"),
    ("with-target", "Name(Store)", "With", "with open('x') as v:\n        pass", True, "body"),
    ("walrus", "Name(Store)", "NamedExpr", "(v := 1)", True, "body"),
    ("walrus-in-comprehension", "Name(Store)", "NamedExpr", "[(v := y) for y in ()]", True, "body"),
    ("delete", "Name(Del)", "Delete", "v = 1\n    del v", True, "body"),
    ("except-name", "identifier field", "ExceptHandler", "try:\n        pass\n    except Exception as v:\n        pass", True, "body"),
    ("local-in-except-body", "Name(Store)", "ExceptHandler", "try:\n        pass\n    except Exception:\n        v = 1", True, "body"),
    ("import", "identifier field", "Import", "import os as v", True, "body"),
    ("import-dotted", "identifier field", "Import", "import os.path", True, "body"),
    ("importfrom", "identifier field", "ImportFrom", "from os import path as v", True, "body"),
    ("def-name", "identifier field", "FunctionDef", "def v():\n        pass", True, "body"),
    ("async-def-name", "identifier field", "AsyncFunctionDef", "async def v():\n        pass", True, "body"),
    ("class-name", "identifier field", "ClassDef", "class v:\n        pass", True, "body"),
    ("match-as", "identifier field", "MatchAs", "match 1:\n        case v:\n            pass", True, "body"),
    ("match-star", "identifier field", "MatchStar", "match [1]:\n        case [*v]:\n            pass", True, "body"),
    ("match-mapping-rest", "identifier field", "MatchMapping", "match {}:\n        case {**v}:\n            pass", True, "body"),
    # captures nested inside a pattern that itself binds a name (the outer handler must still walk its sub-patterns)
    ("match-capture-inside-as", "identifier field", "MatchAs", "match [1]:\n        case [v] as w:\n            pass", True, "body"),
    ("match-capture-inside-mapping-with-rest", "identifier field", "MatchAs", "match {}:\n        case {'k': v, **w}:\n            pass", True, "body"),
    ("match-capture-inside-class-pattern", "identifier field", "MatchAs", "match 1:\n        case int(real=v) as w:\n            pass", True, "body"),
    ("match-star-inside-as", "identifier field", "MatchStar", "match [1]:\n        case [*v] as w:\n            pass", True, "body"),
    # bindings inside compound statements the collector has handlers for
    ("local-in-with-body", "Name(Store)", "With", "with open('x') as w:\n        v = 1", True, "body"),
    ("local-in-for-else", "Name(Store)", "For", "for w in ():\n        pass\n    else:\n        v = 1", True, "body"),
    ("local-in-match-body", "Name(Store)", "Match", "match 1:\n        case w:\n            v = 1", True, "body"),
    ("walrus-in-except-type", "Name(Store)", "NamedExpr", "try:\n        pass\n    except (v := Exception):\n        pass", True, "body"),
    # bindings that belong to a nested scope: must NOT be attributed to f
    ("nested-def-local", "Name(Store)", "FunctionDef", "def g():\n        v = 1", False, None),
    ("nested-def-param", "arg", "FunctionDef", "def g(v):\n        pass", False, None),
    ("lambda-param", "arg", "Lambda", "(lambda v: v)", False, None),
    ("class-body", "Name(Store)", "ClassDef", "class K:\n        v = 1", False, None),
    # comprehension variables: whatever this Python's symbol table says (PEP 709 inlines list/set/dict comprehensions on 3.12+,
    # where symtable reports their variables as locals of the enclosing function; generator expressions stay separate scopes)
    ("comprehension-target", "Name(Store)", "comprehension", "[v for v in ()]", None, None),
    ("genexp-target", "Name(Store)", "comprehension", "list(v for v in ())", None, None),
    # scope modifiers: the name is not local at all
    ("global-decl", "identifier field", "Global", "global v\n    v = 1", False, None),
    ("nonlocal-decl", "identifier field", "Nonlocal", None, False, None),
]
KNOWN_IDENTIFIER_CLASSES = {"FunctionDef", "AsyncFunctionDef", "ClassDef", "ExceptHandler", "alias", "arg", "MatchAs", "MatchStar", "MatchMapping",
                            "Global", "Nonlocal", "Name", "Attribute", "keyword", "ImportFrom", "TypeVar", "ParamSpec", "TypeVarTuple",
                            "MatchClass"}   # MatchClass.kwd_attrs are attribute names, not bindings


ORACLE = {}     # row id -> is the name local to f (filled by validate())


def snippet(row):
    rid, how, cls, body, local, prov = row
    if rid == "param":
        return "def f(v):\n    pass\n"
    if rid == "nonlocal-decl":
        return "def outer():\n    v = 0\n    def f():\n        nonlocal v\n        v = 1\n"
    extra = "    w = None\n" if False else ""
    return f"def f():\n{extra}    {body}\n"


def validate():
    """-> number of validations; raises AnalysisError when this Python disagrees with the table."""
    n = 0
    ident_classes = {c for c, fields in ASDL.items() if any(t == "identifier" for _, t, _ in fields)}
    unknown = ident_classes - KNOWN_IDENTIFIER_CLASSES
    if unknown:
        raise AnalysisError(f"pybinding: this Python's ast has identifier-valued classes the binding table does not know: {sorted(unknown)}")
    for row in ROWS:
        rid, how, cls, body, local, prov = row
        src = snippet(row)
        try:
            top = symtable.symtable(src, "<pybinding>", "exec")
        except SyntaxError as e:
            raise AnalysisError(f"pybinding row {rid}: snippet does not compile on this Python: {e}")
        def find(tbl):
            if tbl.get_name() == "f" and tbl.get_type() == "function":
                return tbl
            for c in tbl.get_children():
                r = find(c)
                if r:
                    return r
            return None
        f = find(top)
        if f is None:
            raise AnalysisError(f"pybinding row {rid}: no function f in snippet")
        name = "os" if rid == "import-dotted" else "v"
        try:
            sym = f.lookup(name)
            is_local = sym.is_local() and not sym.is_global() and not sym.is_free()
            if rid == "param":
                is_local = sym.is_parameter()
        except KeyError:
            is_local = False
        if local is None:
            ORACLE[rid] = is_local
        elif is_local != local:
            raise AnalysisError(f"pybinding row {rid}: symtable says local={is_local}, table says {local}")
        else:
            ORACLE[rid] = local
        n += 1
    return n
