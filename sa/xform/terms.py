"""Term domain of engine T: what the AST-builder code can produce, with the input node left abstract."""
import ast
import re

# ------------------------------------------------------------------------------------------------ ASDL of this Python
_SIG = re.compile(r"^(\w+)\((.*)\)$", re.S)


def _parse_asdl():
    """class name -> [(field, type, quantifier)] from the ASDL docstrings of the running `ast` module."""
    out = {}
    for name in dir(ast):
        cls = getattr(ast, name)
        if isinstance(cls, type) and issubclass(cls, ast.AST) and cls.__doc__:
            doc = " ".join(cls.__doc__.split())
            m = _SIG.match(doc)
            if m and m.group(1) == name:
                fields = []
                for part in [p.strip() for p in m.group(2).split(",") if p.strip()]:
                    typ, fname = part.rsplit(" ", 1)
                    q = ""
                    if typ.endswith("*"):
                        typ, q = typ[:-1], "*"
                    elif typ.endswith("?"):
                        typ, q = typ[:-1], "?"
                    fields.append((fname, typ, q))
                out[name] = fields
            elif isinstance(cls, type) and getattr(cls, "_fields", None) == ():
                out.setdefault(name, [])
    return out


ASDL = _parse_asdl()
SUM_TYPES = {}   # abstract type -> concrete class names
for _n in dir(ast):
    _c = getattr(ast, _n)
    if isinstance(_c, type) and issubclass(_c, ast.AST) and _c is not ast.AST:
        for _b in _c.__mro__[1:]:
            if _b is ast.AST:
                break
            if _b.__name__ in ("expr", "stmt", "expr_context", "excepthandler", "pattern", "operator", "boolop", "unaryop", "cmpop", "mod", "type_ignore", "type_param"):
                SUM_TYPES.setdefault(_b.__name__, set()).add(_n)
DEPRECATED = {"Num", "Str", "Bytes", "NameConstant", "Ellipsis", "Index", "ExtSlice", "Suite", "AugLoad", "AugStore", "Param"}
for _k in SUM_TYPES:
    SUM_TYPES[_k] -= DEPRECATED

STORE_TARGET_KINDS = {"Name", "Tuple", "List", "Starred", "Attribute", "Subscript"}


def concrete_kinds(typ, ctx=None):
    if typ in SUM_TYPES:
        ks = set(SUM_TYPES[typ])
        if typ == "expr" and ctx == "store":
            ks &= STORE_TARGET_KINDS
        return ks
    return {typ}


def field_info(kinds, field):
    """(type, quantifier) of `field` when every class in `kinds` declares it identically, else None."""
    res = set()
    for k in kinds:
        hit = [(t, q) for f, t, q in ASDL.get(k, []) if f == field]
        if not hit:
            return None
        res.add(hit[0])
    return res.pop() if len(res) == 1 else None


# ------------------------------------------------------------------------------------------------ terms
class Term:
    pass


class In(Term):
    """An input slot (never concretised).  kinds: still-possible concrete classes; opt: may be None."""

    def __init__(self, path, typ, opt=False, ctx=None, kinds=None):
        self.path, self.typ, self.opt, self.ctx = path, typ, opt, ctx
        self.kinds = set(kinds) if kinds is not None else concrete_kinds(typ, ctx)

    def __repr__(self):
        return f"IN({self.path})"


class InList(Term):
    """A list-valued input slot of unknown length."""

    def __init__(self, path, typ, ctx=None, start=0):
        self.path, self.typ, self.ctx, self.start = path, typ, ctx, start

    def __repr__(self):
        return f"IN({self.path}{'' if not self.start else f'[{self.start}:]'})"


class SymStr(Term):
    """A string built from input identifiers and literals."""

    def __init__(self, parts):
        self.parts = parts

    def __repr__(self):
        return "".join(p if isinstance(p, str) else "{" + repr(p) + "}" for p in self.parts)

    def key(self):
        return repr(self)


class Ident(Term):
    """An identifier-valued input field (node.name, target.id, alias.asname ...)."""

    def __init__(self, path, opt=False):
        self.path, self.opt = path, opt

    def __repr__(self):
        return f"ID({self.path})"


class Visit(Term):
    def __init__(self, x):
        self.x = x

    def __repr__(self):
        return f"VISIT({self.x!r})"


class GenericVisit(Term):
    def __init__(self, x):
        self.x = x

    def __repr__(self):
        return f"GENERIC_VISIT({self.x!r})"


class Copy(Term):
    def __init__(self, x, origin="?"):
        self.x, self.origin = x, origin       # origin: builder function that made the copy

    def __repr__(self):
        return f"COPY({self.x!r})"


class Lib(Term):
    """A ptera-owned runtime name from the `lib` table (frame, proceed, globals, ABSENT, ...)."""

    def __init__(self, role):
        self.role = role

    def __repr__(self):
        return f"LIB({self.role})"


class Gensym(Term):
    def __init__(self, n):
        self.n = n

    def __repr__(self):
        return f"GENSYM{self.n}"


class Node(Term):
    def __init__(self, cls, fields, site):
        self.cls, self.fields, self.site = cls, fields, site

    def __repr__(self):
        if self.cls == "Name":
            return f"Name({self.fields.get('id')!r}:{self.fields.get('ctx').cls if isinstance(self.fields.get('ctx'), Node) else '?'})"
        if self.cls == "Constant":
            return f"K({self.fields.get('value')!r})"
        if self.cls in ("Load", "Store", "Del"):
            return self.cls
        inner = ", ".join(f"{k}={v!r}" for k, v in self.fields.items() if k not in ("ctx", "lineno", "col_offset", "keywords", "type_comment"))
        return f"{self.cls}@{self.site}({inner})"


class Star(Term):
    """Zero or more repetitions, one per element of `over`; alts = [(local decisions, items)] the per-element alternatives."""

    def __init__(self, over, alts, single=False):
        self.over, self.alts, self.single = over, alts, single     # single: exactly one occurrence (alternatives of one slot)

    def __repr__(self):
        body = " | ".join((("{" + ",".join(f"{k}={v}" for k, v in d) + "} " if d else "") + repr(items)) for d, items in self.alts)
        return f"{'ALT' if self.single else '*FOREACH'}({self.over}: {body})"


class Raise(Term):
    def __init__(self, exc, site):
        self.exc, self.site = exc, site

    def __repr__(self):
        return f"RAISE({self.exc}@{self.site})"


class Rec(Term):
    def __init__(self, fn, args):
        self.fn, self.args = fn, args

    def __repr__(self):
        return f"REC({self.fn}({', '.join(map(repr, self.args))}))"


class Opaque(Term):
    def __init__(self, what):
        self.what = what

    def __repr__(self):
        return f"?{self.what}"


class Unknown(Term):
    """Outside the supported subset: any obligation that depends on it becomes an analysis error."""

    def __init__(self, why):
        self.why = why

    def __repr__(self):
        return f"UNKNOWN({self.why})"


def children(t):
    """Direct sub-terms, in evaluation order where that is meaningful."""
    if isinstance(t, Node):
        return [v for k, v in ordered_fields(t)]
    if isinstance(t, (Visit, GenericVisit, Copy)):
        return [t.x]
    if isinstance(t, Star):
        return [it for _, items in t.alts for it in items]
    if isinstance(t, (list, tuple)):
        return list(t)
    if isinstance(t, SymStr):
        return [p for p in t.parts if not isinstance(p, str)]
    if isinstance(t, Rec):
        return []        # the arguments of a summarised recursive call are its inputs, not part of the output
    return []


# evaluation order of the fields of the node classes the builder synthesises (language reference)
EVAL_ORDER = {
    "Assign": ["value", "targets"], "AnnAssign": ["value", "target", "annotation"], "AugAssign": ["target", "value"],
    "NamedExpr": ["value", "target"], "For": ["iter", "target", "body", "orelse"], "Return": ["value"], "Expr": ["value"],
    "Yield": ["value"], "Call": ["func", "args", "keywords"], "Attribute": ["value"], "Subscript": ["value", "slice"],
    "Try": ["body", "handlers", "orelse", "finalbody"], "ExceptHandler": ["type", "body"], "With": ["items", "body"],
    "withitem": ["context_expr", "optional_vars"], "FunctionDef": ["decorator_list", "args", "returns", "body"],
    "Starred": ["value"], "Tuple": ["elts"], "List": ["elts"], "BinOp": ["left", "right"], "Compare": ["left", "comparators"],
    "If": ["test", "body", "orelse"], "While": ["test", "body", "orelse"], "Raise": ["exc", "cause"],
}


def ordered_fields(n):
    order = EVAL_ORDER.get(n.cls)
    if order is None:
        return list(n.fields.items())
    rest = [k for k in n.fields if k not in order]
    return [(k, n.fields[k]) for k in order if k in n.fields] + [(k, n.fields[k]) for k in rest]


def walk(t):
    """Pre-order walk over a term (lists included)."""
    stack = [t]
    while stack:
        x = stack.pop()
        yield x
        stack.extend(reversed(children(x)))
