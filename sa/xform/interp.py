"""Abstract interpreter over the source of ptera's AST-builder methods (engine T).

It evaluates the *builder code* (PteraTransformer's methods) over the term domain of terms.py with the input
node left abstract.  Every condition that depends on the unknown input forks the analysis (decision replay);
decisions about the elements of an unknown-length list are enumerated locally and joined into a Star term, so
the number of paths stays the product of the *global* decisions only.  Nothing of ptera is imported or run and
no path condition is handed to a solver: feasibility is kind consistency (one AST class per input slot per path).
"""
import ast
import itertools

from ..core import AnalysisError, norm
from .terms import (ASDL, Copy, GenericVisit, Gensym, Ident, In, InList, Lib, Node, Opaque, Raise, Rec, Star, SymStr,
                    Term, Unknown, Visit, concrete_kinds, field_info)


class NeedDecision(Exception):
    def __init__(self, key, options, owner):
        self.key, self.options, self.owner = key, options, owner


class PathRaise(Exception):
    def __init__(self, exc, site):
        self.exc, self.site = exc, site


class Ret(Exception):
    def __init__(self, v):
        self.v = v


class Unsupported(AnalysisError):
    pass


class ContinueLoop(Exception):
    pass


class PL(list):
    """A list value of the interpreted program, stamped with its creation time."""
    stamp = 0


class Closure:
    def __init__(self, fn, env, selfv=None, name=None):
        self.fn, self.env, self.selfv = fn, env, selfv
        self.name = name or getattr(fn, "name", "<lambda>")


class SelfObj:
    def __init__(self):
        self.attrs = {}

    def __repr__(self):
        return "self"


class LibTable:
    pass


class AstModule:
    pass


class Decider:
    def __init__(self, prefix, marker, parent, seed=None):
        self.prefix, self.marker, self.parent = prefix, marker, parent
        self.idx = 0
        self.memo = dict(seed or {})
        self.taken = []


class IterCtx:
    def __init__(self, stamp):
        self.stamp = stamp
        self.delta = {}       # id(list) -> (list, [items])

    def log(self, lst, items):
        self.delta.setdefault(id(lst), (lst, []))[1].extend(items)


def keystr(key):
    return "|".join(str(k) for k in key)


class Interp:
    MAX_DEPTH = 2     # recursion bound per function (nested-target depth)

    def __init__(self, module_tree, cls_name, max_depth=2):
        self.tree = module_tree
        self.classes = {n.name: n for n in module_tree.body if isinstance(n, ast.ClassDef)}
        if cls_name not in self.classes:
            raise AnalysisError(f"anchor vanished: class {cls_name} in transform.py")
        self.cls = self.classes[cls_name]
        self.methods = {n.name: n for n in self.cls.body if isinstance(n, ast.FunctionDef)}
        self.modfns = {n.name: n for n in module_tree.body if isinstance(n, ast.FunctionDef)}
        self.MAX_DEPTH = max_depth
        self.cur = None
        self.ctxs = []
        self.clock = itertools.count(1)
        self.gensyms = itertools.count(1)
        self.depth = {}
        self.callstack = []
        self.notes = []          # partial raises: [(decisions, Raise)]
        self.stats = {"runs": 0, "paths": 0, "local_alts": 0}

    # ============================================================================ decisions
    def decide(self, key, options=(True, False)):
        ks = keystr(key)
        d = self.cur
        while d is not None:
            if ks in d.memo:
                return d.memo[ks]
            d = d.parent
        owner = self.cur
        while owner.parent is not None and (owner.marker is None or owner.marker not in ks):
            owner = owner.parent
        if owner.idx < len(owner.prefix):
            v = owner.prefix[owner.idx]
            owner.idx += 1
            owner.memo[ks] = v
            owner.taken.append((ks, v))
            return v
        raise NeedDecision(key, list(options), owner)

    def enumerate_paths(self, marker, thunk, seed=None):
        results = []
        stack = [[]]
        guard = 0
        while stack:
            guard += 1
            if guard > 4000:
                raise Unsupported("path explosion (more than 4000 alternatives at one enumeration point)")
            prefix = stack.pop()
            d = Decider(prefix, marker, self.cur, seed)
            save, save_ctx = self.cur, list(self.ctxs)
            self.cur = d
            self.stats["runs"] += 1
            try:
                res = thunk()
                results.append((tuple(d.taken), res))
            except NeedDecision as e:
                if e.owner is not d:
                    raise
                for opt in reversed(e.options):
                    stack.append(prefix + [opt])
            except PathRaise as r:
                results.append((tuple(d.taken), Raise(r.exc, r.site)))
            finally:
                self.cur = save
                self.ctxs[:] = save_ctx
        return results

    # ============================================================================ lists
    def new_list(self, items=()):
        l = PL(items)
        l.stamp = next(self.clock)
        return l

    def list_add(self, lst, items):
        if not isinstance(lst, PL):
            raise Unsupported(f"list mutation on {type(lst).__name__}")
        for ctx in reversed(self.ctxs):
            if lst.stamp < ctx.stamp:
                ctx.log(lst, list(items))
                return
            # the list was created inside this (innermost) abstract iteration: mutate it directly
            break
        lst.extend(items)

    def as_items(self, v):
        """Items to splice for `extend(v)` / `[*v]`."""
        if isinstance(v, (PL, list, tuple)):
            return list(v)
        if isinstance(v, InList):
            return [self.star_of_inlist(v)]
        if isinstance(v, (Visit, GenericVisit, Rec, Opaque)):
            return [v]            # statement list returned by a visit: spliced as is
        if isinstance(v, Star):
            return [v]
        raise Unsupported(f"cannot splice {v!r}")

    def star_of_inlist(self, v):
        elem = In(v.path + "[*]", v.typ, ctx=v.ctx)
        return Star(v.path + "[*]", [((), [elem])])

    def abstract_iter(self, star, body):
        """Run `body(item)` for the representative element(s) of a Star; return {id(list): (list, Star)} of logged effects."""
        new_alts = []
        for dec, items in star.alts:
            seed = {k: v for k, v in dec}
            ctx = IterCtx(next(self.clock))

            def thunk():
                ctx.delta = {}
                self.ctxs.append(ctx)
                try:
                    for it in items:
                        body(it)
                finally:
                    if self.ctxs and self.ctxs[-1] is ctx:
                        self.ctxs.pop()
                return {k: (l, list(v)) for k, (l, v) in ctx.delta.items()}
            for dec2, delta in self.enumerate_paths(star.over, thunk, seed):
                self.stats["local_alts"] += 1
                new_alts.append((tuple(dec) + tuple(dec2), delta))
        touched = {}
        for dec, delta in new_alts:
            if isinstance(delta, Raise):
                self.notes.append((dec, delta, star.over))
                continue
            for k, (l, v) in delta.items():
                touched[k] = l
        if getattr(star, "single", False) and len(new_alts) == 1 and not new_alts[0][0] and not isinstance(new_alts[0][1], Raise):
            for k, (l, v) in new_alts[0][1].items():      # one undecided alternative: no need for an ALT wrapper
                self.list_add(l, v)
            return
        for k, l in touched.items():
            alts = []
            for dec, delta in new_alts:
                if isinstance(delta, Raise):
                    alts.append((dec, [delta]))
                else:
                    alts.append((dec, delta.get(k, (l, []))[1]))
            self.list_add(l, [Star(star.over, merge_alts(alts), getattr(star, "single", False))])

    def iterate(self, seq, body):
        """for x in seq: body(x)   with abstract handling of unknown-length parts."""
        if isinstance(seq, InList):
            seq = [self.star_of_inlist(seq)]
        if isinstance(seq, Opaque):
            seq = [Star(f"{seq.what}[*]", [((), [SymStr([Opaque(seq.what + "[*]")])])])]
        if not isinstance(seq, (list, tuple)):
            raise Unsupported(f"iteration over {seq!r}")
        for it in list(seq):
            if isinstance(it, Star):
                self.abstract_iter(it, body)
            elif isinstance(it, In) and self.cur is not None and (self.cur.marker is None or self.cur.marker not in it.path):
                # decisions about one input slot are enumerated locally (alternatives of that slot), not globally
                self.abstract_iter(Star(it.path, [((), [it])], single=True), body)
            else:
                body(it)

    # ============================================================================ calls
    def call_closure(self, clo, args, kwargs, site):
        name = clo.name
        if self.depth.get(name, 0) >= self.MAX_DEPTH:
            return Rec(name, [a for a in args if isinstance(a, (Term, str))])
        self.depth[name] = self.depth.get(name, 0) + 1
        self.callstack.append(name)
        try:
            return self._call(clo, args, kwargs, site)
        finally:
            self.depth[name] -= 1
            self.callstack.pop()

    def _call(self, clo, args, kwargs, site):
        fn = clo.fn
        env = dict(clo.env)
        a = fn.args
        params = [p.arg for p in a.args]
        args = list(args)
        if clo.selfv is not None:
            args = [clo.selfv] + args
        n_pos = len(params)
        defaults = dict(zip(params[n_pos - len(a.defaults):], a.defaults))
        for p, v in zip(params, args):
            env[p] = v
        for p in params[len(args):]:
            if p in kwargs:
                env[p] = kwargs.pop(p)
            elif p in defaults:
                env[p] = self.ev(defaults[p], clo.env)
            else:
                raise Unsupported(f"missing argument {p} in call to {clo.name} at line {site}")
        if a.vararg:
            env[a.vararg.arg] = tuple(args[n_pos:])
        elif len(args) > n_pos:
            raise Unsupported(f"too many arguments for {clo.name} at line {site}")
        for p, d in zip(a.kwonlyargs, a.kw_defaults):
            if p.arg in kwargs:
                env[p.arg] = kwargs.pop(p.arg)
            elif d is not None:
                env[p.arg] = self.ev(d, clo.env)
        if kwargs:
            if a.kwarg:
                env[a.kwarg.arg] = kwargs
            else:
                raise Unsupported(f"unexpected keyword(s) {sorted(kwargs)} for {clo.name}")
        if isinstance(fn, ast.Lambda):
            return self.ev(fn.body, env)
        try:
            self.block(fn.body, env)
        except Ret as r:
            return r.v
        return None

    def origin_function(self):
        """The builder function a construct is attributed to: the innermost function on the abstract call stack that the
        reference tree knows (a helper introduced later is attributed to the function it was split from)."""
        from ..normal import reference
        known = {q.rsplit(".", 1)[1] for q in reference().get("inventory", {}).get("transform", [])}
        for name in reversed(self.callstack):
            if not known or name in known:
                return name
        return self.callstack[-1] if self.callstack else "?"

    def method(self, name, selfv):
        if name not in self.methods:
            return None
        fn = self.methods[name]
        if any(isinstance(d, ast.Name) and d.id == "staticmethod" for d in getattr(fn, "decorator_list", [])):
            return Closure(fn, {}, None, name)        # a static method receives no receiver
        return Closure(fn, {}, selfv, name)

    # ============================================================================ statements
    def block(self, stmts, env):
        for s in stmts:
            self.stmt(s, env)

    def assign(self, tgt, val, env):
        if isinstance(tgt, ast.Name):
            env[tgt.id] = val
        elif isinstance(tgt, (ast.Tuple, ast.List)):
            if not isinstance(val, (tuple, list)) or len(val) != len(tgt.elts):
                raise Unsupported(f"cannot unpack {val!r} into {norm(tgt)}")
            for t, v in zip(tgt.elts, val):
                self.assign(t, v, env)
        elif isinstance(tgt, ast.Attribute):
            obj = self.ev(tgt.value, env)
            if isinstance(obj, SelfObj):
                obj.attrs[tgt.attr] = val
            # attribute stores on built nodes (tree.decorator_list = []) are bookkeeping here
        elif isinstance(tgt, ast.Subscript):
            pass      # self.annotated[...] = ..., self.linenos[...] = ...: bookkeeping, irrelevant to the output shape
        else:
            raise Unsupported(f"assignment target {norm(tgt)}")

    def stmt(self, s, env):
        if isinstance(s, ast.Expr):
            self.ev(s.value, env)
        elif isinstance(s, ast.Assign):
            v = self.ev(s.value, env)
            for t in s.targets:
                self.assign(t, v, env)
        elif isinstance(s, ast.AugAssign):
            if isinstance(s.op, ast.Add) and isinstance(s.target, ast.Name):
                cur = env[s.target.id]
                v = self.ev(s.value, env)
                if isinstance(cur, PL):
                    self.list_add(cur, self.as_items(v))
                else:
                    env[s.target.id] = self.binop(ast.Add(), cur, v, s)
            else:
                raise Unsupported(f"augmented assignment {norm(s)}")
        elif isinstance(s, ast.If):
            if self.truth(self.ev(s.test, env), s.test):
                self.block(s.body, env)
            else:
                self.block(s.orelse, env)
        elif isinstance(s, ast.For):
            seq = self.ev(s.iter, env)

            def body(item):
                self.assign(s.target, item, env)
                try:
                    self.block(s.body, env)
                except ContinueLoop:
                    pass          # `continue`: this element contributes nothing more
            self.iterate(seq, body)
            if s.orelse:
                self.block(s.orelse, env)
        elif isinstance(s, ast.Return):
            raise Ret(self.ev(s.value, env) if s.value is not None else None)
        elif isinstance(s, ast.FunctionDef):
            env[s.name] = Closure(s, env, None, s.name)
        elif isinstance(s, ast.Assert):
            if not self.truth(self.ev(s.test, env), s.test):
                raise PathRaise("AssertionError", s.lineno)
        elif isinstance(s, ast.Raise):
            exc = s.exc
            name = "Exception"
            if isinstance(exc, ast.Call):
                name = norm(exc.func)
            elif isinstance(exc, ast.Name):
                name = exc.id
            raise PathRaise(name, s.lineno)
        elif isinstance(s, ast.Pass):
            pass
        elif isinstance(s, ast.Continue):
            raise ContinueLoop()
        else:
            raise Unsupported(f"statement {type(s).__name__} at line {s.lineno}")

    # ============================================================================ truthiness / kinds
    def truth(self, v, at=None):
        if isinstance(v, bool) or v is None or isinstance(v, (int, str)):
            return bool(v)
        if isinstance(v, In):
            if v.opt:
                present = self.decide(("present", v.path))
                return present
            return True
        if isinstance(v, Ident):
            if v.opt:
                return self.decide(("present", v.path))
            return True
        if isinstance(v, (Node, Visit, GenericVisit, Copy, Lib, SymStr, Closure, SelfObj)):
            return True
        if isinstance(v, (list, tuple)):
            return len(v) > 0      # a list holding only Star elements is treated as non-empty (representative element exists)
        if isinstance(v, InList):
            return self.decide(("nonempty", v.path))
        if isinstance(v, dict):
            return bool(v)
        if isinstance(v, Opaque):
            # a test the rewriter makes on something this analysis does not model (any(...) over ast.walk, say): both outcomes are explored
            return self.decide(("sym", f"{v!r}@{getattr(at, 'lineno', '?')}"))
        raise Unsupported(f"truth value of {v!r} at line {getattr(at, 'lineno', '?')}")

    def refine_present(self, v):
        """The value of an optional slot once it is known to be present."""
        if isinstance(v, In) and v.opt:
            return In(v.path, v.typ, False, v.ctx, v.kinds)
        if isinstance(v, Ident) and v.opt:
            return Ident(v.path, False)
        return v

    def isinstance_(self, v, clsnames):
        """clsnames: set of concrete AST class names (or special 'str', 'list', 'AST')."""
        if "AST" in clsnames:
            return isinstance(v, (Node, In, Visit, GenericVisit, Copy))
        if isinstance(v, str) or isinstance(v, (SymStr, Ident)):
            return "str" in clsnames
        if isinstance(v, (list, tuple)):
            return "list" in clsnames
        if v is None or isinstance(v, (bool, int)):
            return False
        if isinstance(v, Node):
            if "Str" in clsnames and v.cls == "Constant" and isinstance(v.fields.get("value"), (str, SymStr)):
                return True
            return v.cls in clsnames
        if isinstance(v, In):
            if v.opt and not self.decide(("present", v.path)):
                return False
            want = set(clsnames)
            if "Str" in want:
                # ast.Str is Constant-with-a-string
                if "Constant" not in self.possible(v):
                    return False
                if not self.isinstance_(In(v.path, v.typ, False, v.ctx, v.kinds), {"Constant"}):
                    return False
                return self.decide(("const-is-str", v.path))
            if "Index" in want and len(want) == 1:
                return False           # ast.Index no longer exists as a node class on this Python
            poss = self.possible(v)
            if poss <= want:
                return True
            if not (poss & want):
                return False
            ans = self.decide(("kind", v.path, ",".join(sorted(want & poss))))
            return ans
        if isinstance(v, (Visit, GenericVisit, Rec)):
            if "list" in clsnames:
                return self.decide(("visit-returns-list", repr(v)))
            return False
        if isinstance(v, (Copy,)):
            return self.isinstance_(v.x, clsnames)
        if isinstance(v, (Lib, Opaque, Closure, SelfObj, dict)):
            return False
        raise Unsupported(f"isinstance on {v!r}")

    def possible(self, v):
        """Still-possible kinds of an input slot on this path (kind map = memoised isinstance decisions)."""
        poss = set(v.kinds)
        d = self.cur
        prefix = f"kind|{v.path}|"
        while d is not None:
            for ks, val in d.memo.items():
                if ks.startswith(prefix):
                    ks_set = set(ks[len(prefix):].split(","))
                    poss = (poss & ks_set) if val else (poss - ks_set)
            d = d.parent
        return poss

    # ============================================================================ attribute access
    def getattr_(self, obj, attr, node):
        if isinstance(obj, SelfObj):
            if attr in obj.attrs:
                return obj.attrs[attr]
            m = self.method(attr, obj)
            if m is not None:
                return m
            if attr in ("visit", "generic_visit"):
                return ("intrinsic", attr, obj)
            return Opaque(f"self.{attr}")
        if isinstance(obj, AstModule):
            return ("astclass", attr)
        if isinstance(obj, In):
            if attr in ("lineno", "col_offset", "end_lineno", "end_col_offset"):
                return Opaque(f"{obj.path}.{attr}")
            poss = self.possible(obj)
            if attr == "s" and "Constant" in poss:
                attr = "value"
            fi = field_info(poss, attr)
            if fi is None:
                with_f = {k for k in poss if any(f == attr for f, _, _ in ASDL.get(k, []))}
                if with_f and with_f != poss:
                    # the builder reads a field only some of the possible classes have: an unguarded access
                    raise PathRaise(f"AttributeError:{attr} on {sorted(poss - with_f)[:3]}", node.lineno)
                if not with_f:
                    raise PathRaise(f"AttributeError:{attr}", node.lineno)
                fi = field_info(with_f, attr)
                if fi is None:
                    raise Unsupported(f"field {attr} has different types across {sorted(with_f)}")
            typ, q = fi
            path = f"{obj.path}.{attr}"
            ctx = obj.ctx if attr in ("elts", "value") and obj.ctx == "store" and poss <= {"Tuple", "List", "Starred"} else None
            if attr in ("target", "targets", "optional_vars"):
                ctx = "store"
            if typ in ("identifier", "string", "constant", "int"):
                if q == "*":
                    return InList(path, typ)
                return Ident(path, q == "?")
            if q == "*":
                return InList(path, typ, ctx)
            kinds = None
            if attr == "target" and poss <= {"AugAssign", "AnnAssign"}:
                kinds = {"Name", "Attribute", "Subscript"}
            if attr == "target" and poss <= {"NamedExpr"}:
                kinds = {"Name"}
            return In(path, typ, q == "?", ctx, kinds)
        if isinstance(obj, Node):
            if attr in obj.fields:
                return obj.fields[attr]
            if attr in ("lineno", "col_offset"):
                return Opaque(f"{obj.cls}.{attr}")
            if attr == "s" and obj.cls == "Constant":
                return obj.fields.get("value")
            if any(f == attr for f, _, _ in ASDL.get(obj.cls, [])):
                return None
            raise PathRaise(f"AttributeError:{attr}", node.lineno)
        if isinstance(obj, (str, SymStr, Ident)):
            return ("strmethod", obj, attr)
        if isinstance(obj, PL):
            return ("listmethod", obj, attr)
        if isinstance(obj, Opaque):
            return Opaque(f"{obj.what}.{attr}")
        if isinstance(obj, tuple) and obj and obj[0] == "module":
            return ("modattr", obj[1], attr)
        if isinstance(obj, dict):
            return ("dictmethod", obj, attr)
        if isinstance(obj, tuple) and obj and obj[0] == "builtin" and obj[1] == "list" and attr == "__add__":
            return ("listmethod_unbound", "__add__")
        if isinstance(obj, Collector):
            if attr == "vars":
                return self.new_list([Star(f"names({obj.arg!r})[*]", [((), [Ident(f"names({obj.arg!r})[*]")])])])
            return Opaque(f"collector.{attr}")
        raise Unsupported(f"attribute {attr} of {obj!r} at line {node.lineno}")

    # ============================================================================ expressions
    def ev(self, e, env):
        m = getattr(self, "ev_" + type(e).__name__, None)
        if m is None:
            raise Unsupported(f"expression {type(e).__name__} at line {getattr(e, 'lineno', '?')}")
        return m(e, env)

    def ev_Constant(self, e, env):
        return e.value

    def ev_Name(self, e, env):
        if e.id in env:
            return env[e.id]
        if e.id == "ast":
            return AstModule()
        if e.id in ("isinstance", "len", "getattr", "reduce", "enumerate", "map", "sorted", "list", "tuple", "deepcopy", "any",
                    "reversed", "str", "set", "id", "hasattr", "bool"):
            return ("builtin", e.id)
        if e.id in ("re", "sys", "inspect", "types"):
            return ("module", e.id)
        if e.id in self.modfns:
            return Closure(self.modfns[e.id], {}, None, e.id)
        if e.id in self.classes:
            return ("modclass", e.id)
        if e.id in ("True", "False", "None"):
            return {"True": True, "False": False, "None": None}[e.id]
        if e.id in ("ABSENT", "enter_tag", "exit_tag", "get_tags", "_GENERIC"):
            return Opaque(e.id)
        if e.id == "NotImplementedError":
            return ("exc", e.id)
        raise Unsupported(f"free name {e.id} at line {e.lineno}")

    def ev_Attribute(self, e, env):
        return self.getattr_(self.ev(e.value, env), e.attr, e)

    def ev_JoinedStr(self, e, env):
        parts = []
        for v in e.values:
            if isinstance(v, ast.Constant):
                parts.append(v.value)
            else:
                x = self.ev(v.value, env)
                parts.append(x)
        if all(isinstance(p, str) for p in parts):
            return "".join(parts)
        return SymStr(parts)

    def ev_List(self, e, env):
        out = self.new_list()
        for el in e.elts:
            if isinstance(el, ast.Starred):
                out.extend(self.as_items(self.ev(el.value, env)))
            else:
                out.append(self.ev(el, env))
        return out

    def ev_Tuple(self, e, env):
        out = []
        for el in e.elts:
            if isinstance(el, ast.Starred):
                out.extend(self.as_items(self.ev(el.value, env)))
            else:
                out.append(self.ev(el, env))
        return tuple(out)

    def ev_Dict(self, e, env):
        return {self.ev(k, env): self.ev(v, env) for k, v in zip(e.keys, e.values) if k is not None}

    def ev_IfExp(self, e, env):
        return self.ev(e.body, env) if self.truth(self.ev(e.test, env), e.test) else self.ev(e.orelse, env)

    def ev_BoolOp(self, e, env):
        v = None
        for x in e.values:
            v = self.ev(x, env)
            t = self.truth(v, x)
            if isinstance(e.op, ast.And) and not t:
                return v if not isinstance(v, (In, Ident)) else None
            if isinstance(e.op, ast.Or) and t:
                return self.refine_present(v)
        return self.refine_present(v) if isinstance(e.op, ast.And) else v

    def ev_UnaryOp(self, e, env):
        v = self.ev(e.operand, env)
        if isinstance(e.op, ast.Not):
            return not self.truth(v, e.operand)
        if isinstance(e.op, ast.USub) and isinstance(v, int):
            return -v
        raise Unsupported(f"unary op at line {e.lineno}")

    def binop(self, op, a, b, node):
        if isinstance(op, ast.Add):
            if isinstance(a, (PL, list)) and isinstance(b, (PL, list, InList, Visit, GenericVisit, Rec)):
                return self.new_list(list(a) + self.as_items(b))
            if isinstance(a, (Visit, GenericVisit, Rec)) and isinstance(b, (PL, list)):
                return self.new_list([a] + list(b))
            if isinstance(a, str) and isinstance(b, str):
                return a + b
            if isinstance(a, int) and isinstance(b, int):
                return a + b
            if isinstance(a, (str, SymStr, Ident)) and isinstance(b, (str, SymStr, Ident)):
                return SymStr([a, b])
        if isinstance(op, ast.Sub) and isinstance(a, int) and isinstance(b, int):
            return a - b
        if isinstance(op, ast.Sub):
            return Opaque("set-difference")
        if isinstance(op, ast.BitOr):
            return Opaque("set-union")
        raise Unsupported(f"binary operation {type(op).__name__} on {a!r}, {b!r} at line {getattr(node, 'lineno', '?')}")

    def ev_BinOp(self, e, env):
        return self.binop(e.op, self.ev(e.left, env), self.ev(e.right, env), e)

    def ev_Compare(self, e, env):
        if len(e.ops) != 1:
            raise Unsupported("chained comparison")
        a, b, op = self.ev(e.left, env), self.ev(e.comparators[0], env), e.ops[0]
        if isinstance(op, (ast.Is, ast.IsNot)):
            if b is None:
                if isinstance(a, (In, Ident)) and a.opt:
                    isnone = not self.decide(("present", a.path))
                else:
                    isnone = a is None
                return isnone if isinstance(op, ast.Is) else not isnone
            if isinstance(a, bool) or isinstance(b, bool):
                same = a is b
                return same if isinstance(op, ast.Is) else not same
            raise Unsupported(f"identity comparison {norm(e)}")
        if isinstance(op, (ast.Gt, ast.Lt, ast.GtE, ast.LtE, ast.Eq, ast.NotEq)):
            if isinstance(a, (int, str)) and isinstance(b, (int, str)) and type(a) is type(b):
                return {ast.Gt: a > b, ast.Lt: a < b, ast.GtE: a >= b, ast.LtE: a <= b, ast.Eq: a == b, ast.NotEq: a != b}[type(op)]
            if isinstance(a, tuple) and a and a[0] == "len":
                return self.decide(("len", a[1], type(op).__name__, b))
            if isinstance(a, tuple) and a and a[0] == "len-some" and isinstance(b, int):
                # same convention as truth(): a list with Star elements is treated as non-empty, compared with 0 / 1 only
                nonempty = a[1] > 0
                table = {("Eq", 0): not nonempty, ("NotEq", 0): nonempty, ("Gt", 0): nonempty, ("GtE", 1): nonempty, ("Lt", 1): not nonempty, ("LtE", 0): not nonempty}
                if (type(op).__name__, b) in table:
                    return table[(type(op).__name__, b)]
            if isinstance(a, (SymStr, Ident)) or isinstance(b, (SymStr, Ident)):
                r = self.decide(("streq", repr(a), repr(b)))
                return r if isinstance(op, ast.Eq) else not r
            raise Unsupported(f"comparison {norm(e)} on {a!r}, {b!r}")
        if isinstance(op, (ast.In, ast.NotIn)):
            if isinstance(a, str) and isinstance(b, str):
                r = a in b
            elif isinstance(a, str) and isinstance(b, dict):
                r = a in b
            elif isinstance(b, SymStr) and getattr(b, "nosep", None) is not None and getattr(b, "nosep") == a:
                r = False
            elif isinstance(b, (SymStr, Ident)):
                r = self.decide(("contains", repr(b), a))
            elif isinstance(b, Opaque) or isinstance(a, (SymStr, Ident, In)):
                r = self.decide(("member", repr(a), repr(b)))
            else:
                raise Unsupported(f"membership {norm(e)}")
            return r if isinstance(op, ast.In) else not r
        raise Unsupported(f"comparison operator at line {e.lineno}")

    def ev_Subscript(self, e, env):
        obj = self.ev(e.value, env)
        if isinstance(e.slice, ast.Slice):
            lo = self.ev(e.slice.lower, env) if e.slice.lower else 0
            if e.slice.upper is not None or e.slice.step is not None:
                raise Unsupported("slice with upper bound")
            if isinstance(obj, InList):
                return InList(obj.path, obj.typ, obj.ctx, obj.start + lo)
            if isinstance(obj, (PL, list)):
                return self.new_list(list(obj)[lo:])
            if isinstance(obj, tuple):
                return obj[lo:]
            if isinstance(obj, str):
                return obj[lo:]
            if isinstance(obj, (SymStr, Ident)):
                return SymStr([obj, f"[{lo}:]"])
            raise Unsupported(f"slice of {obj!r}")
        idx = self.ev(e.slice, env)
        if isinstance(obj, InList) and isinstance(idx, int):
            return In(f"{obj.path}[{obj.start + idx}]", obj.typ, False, obj.ctx)
        if isinstance(obj, (PL, list, tuple)) and isinstance(idx, int):
            if idx >= len(obj):
                raise PathRaise("IndexError", e.lineno)
            return obj[idx]
        if isinstance(obj, LibTable):
            return (Lib(idx), Opaque(f"lib[{idx}]"))
        if isinstance(obj, dict):
            return obj.get(idx, Opaque("dict-item"))
        if isinstance(obj, Opaque):
            return Opaque(f"{obj.what}[{idx!r}]")
        raise Unsupported(f"subscript {norm(e)} on {obj!r}")

    def ev_Lambda(self, e, env):
        return Closure(e, env, None, "<lambda>")

    def ev_Starred(self, e, env):
        raise Unsupported("starred expression outside call/list")

    def ev_ListComp(self, e, env):
        out = self.new_list()
        env2 = dict(env)

        def run(i):
            if i == len(e.generators):
                self.list_add(out, [self.ev(e.elt, env2)])
                return
            gen = e.generators[i]
            seq = self.ev(gen.iter, env2)
            if i == len(e.generators) - 1 and not gen.ifs and isinstance(gen.target, ast.Name) and isinstance(e.elt, ast.Name) and e.elt.id == gen.target.id:
                self.list_add(out, self.as_items(seq))      # [t for ... for t in E]: the concatenation of the E's (normal form of `acc.extend(E)` loops)
                return

            def body(item):
                self.assign(gen.target, item, env2)
                for cond in gen.ifs:
                    if not self.truth(self.ev(cond, env2), cond):
                        return
                run(i + 1)
            self.iterate(seq, body)
        run(0)
        return out

    ev_GeneratorExp = ev_ListComp

    # ---------------------------------------------------------------------------- calls
    def ev_Call(self, e, env):
        f = self.ev(e.func, env)
        args = []
        for a in e.args:
            if isinstance(a, ast.Starred):
                v = self.ev(a.value, env)
                if not isinstance(v, (list, tuple)):
                    raise Unsupported(f"star-argument {v!r}")
                if any(isinstance(x, Star) for x in v):
                    raise Unsupported("star-argument of unknown length")
                args.extend(v)
            else:
                args.append(self.ev(a, env))
        kwargs = {}
        for k in e.keywords:
            if k.arg is None:
                v = self.ev(k.value, env)
                if isinstance(v, dict):
                    kwargs.update(v)
                else:
                    raise Unsupported("**kwargs of unknown shape")
            else:
                kwargs[k.arg] = self.ev(k.value, env)
        return self.apply(f, args, kwargs, e)

    def apply(self, f, args, kwargs, e):
        if isinstance(f, Closure):
            if f.name in ("should_instrument",):
                ann = args[1] if len(args) > 1 else kwargs.get("ann")
                if isinstance(ann, Node) and ann.cls == "Constant" and ann.fields.get("value") is None:
                    ann = None
                return self.decide(("instrument", repr(args[0]), repr(ann)))
            if f.name == "_evaluate":
                return Opaque("evaluated-annotation")
            if f.name == "_gensym":
                return Gensym(next(self.gensyms))
            return self.call_closure(f, args, kwargs, e.lineno)
        if isinstance(f, tuple):
            tag = f[0]
            if tag == "astclass":
                return self.make_node(f[1], args, kwargs, e)
            if tag == "intrinsic":
                x = args[0]
                if f[1] == "visit":
                    return self.visit_of(x)
                return GenericVisit(x)
            if tag == "builtin":
                return self.builtin(f[1], args, kwargs, e)
            if tag == "strmethod":
                return self.strmethod(f[1], f[2], args, e)
            if tag == "listmethod":
                return self.listmethod(f[1], f[2], args, e)
            if tag == "dictmethod":
                if f[2] == "get":
                    return f[1].get(args[0], args[1] if len(args) > 1 else None)
                raise Unsupported(f"dict method {f[2]}")
            if tag == "modattr":
                if f[1] == "re" and f[2] == "split":
                    return Opaque(f"split({args[1]!r})")
                if f[1] == "ast":
                    return self.make_node(f[2], args, kwargs, e)
                return Opaque(f"{f[1]}.{f[2]}(...)")
            if tag == "modclass":
                if f[1] == "SimpleVariableCollector":
                    return Collector(args[0])
                return Opaque(f"{f[1]}(...)")
            if tag == "exc":
                return ("excinst", f[1])
        if isinstance(f, Opaque):
            return Opaque(f"{f.what}(...)")
        raise Unsupported(f"call of {f!r} at line {e.lineno}")

    def visit_of(self, x):
        if x is None:
            return None
        if isinstance(x, Node):
            if x.cls == "Constant":
                return x                      # generic_visit of a constant is the constant
            m = self.methods.get(f"visit_{x.cls}")
            if m is not None:
                return self.call_closure(Closure(m, {}, self.selfobj, m.name), [x], {}, x.site)
            return GenericVisit(x)
        if isinstance(x, (In, Copy)):
            return Visit(x)
        if isinstance(x, (Visit, GenericVisit)):
            # something that was already visited is visited again (an already rewritten tree put back into a node that is then visited): the slot occurs once
            # more -- the slot-linearity rules count it
            return Visit(x)
        raise Unsupported(f"visit of {x!r}")

    def make_node(self, cls, args, kwargs, e):
        if cls in ("copy_location",):
            return args[0]
        if cls in ("fix_missing_locations", "increment_lineno"):
            return args[0] if args else None
        if cls == "Index":
            return kwargs.get("value", args[0] if args else None)
        if cls == "Str":
            v = kwargs.get("s", args[0] if args else None)
            return Node("Constant", {"value": v}, e.lineno)
        if cls in ("walk", "iter_child_nodes", "iter_fields", "dump", "unparse", "get_docstring"):
            return Opaque(f"ast.{cls}(...)")        # reads a tree, builds nothing
        if cls not in ASDL:
            raise Unsupported(f"ast.{cls} is not a node class of this Python (line {e.lineno})")
        fields = {}
        names = [f for f, _, _ in ASDL[cls]]
        for n, a in zip(names, args):
            fields[n] = a
        fields.update(kwargs)
        return Node(cls, fields, e.lineno)

    def builtin(self, name, args, kwargs, e):
        if name == "isinstance":
            return self.isinstance_(args[0], self.class_names(e.args[1]))
        if name == "len":
            v = args[0]
            if isinstance(v, InList):
                return ("len", v.path)
            if isinstance(v, (list, tuple)) and not any(isinstance(x, Star) for x in v):
                return len(v)
            if isinstance(v, (list, tuple)):
                return ("len-some", len(v))        # a list holding repeated (Star) elements: its length is only known to be what its truth value says
            raise Unsupported(f"len of {v!r}")
        if name == "getattr":
            obj, attr = args[0], args[1]
            if isinstance(obj, In) and len(args) == 3:
                if field_info(self.possible(obj), attr) is None:
                    return args[2]
            return self.getattr_(obj, attr, e)
        if name == "hasattr":
            return Opaque("hasattr")
        if name == "reduce":
            fn, seq = args[0], args[1]
            init = args[2] if len(args) > 2 else None
            if not (isinstance(fn, tuple) and fn[0] == "listmethod_unbound"):
                # reduce(list.__add__, ...)
                if norm(e.args[0]) != "list.__add__":
                    raise Unsupported(f"reduce with {norm(e.args[0])}")
            out = self.new_list(list(init) if init is not None else [])
            for it in list(seq):
                if isinstance(it, Star):
                    alts = []
                    for dec, items in it.alts:
                        flat = []
                        for x in items:
                            flat.extend(self.as_items(x) if not isinstance(x, Raise) else [x])
                        alts.append((dec, flat))
                    out.append(Star(it.over, alts, getattr(it, "single", False)))
                else:
                    out.extend(self.as_items(it))
            return out
        if name == "enumerate":
            seq = args[0]
            if isinstance(seq, InList):
                st = self.star_of_inlist(seq)
                return self.new_list([Star(st.over, [((), [(Opaque(f"index({seq.path})"), st.alts[0][1][0])])])])
            if isinstance(seq, (list, tuple)):
                out = self.new_list()
                for i, it in enumerate(seq):
                    if isinstance(it, Star):
                        out.append(Star(it.over, [(d, [(Opaque("index"), x) for x in items]) for d, items in it.alts]))
                    else:
                        out.append((i, it))
                return out
            raise Unsupported(f"enumerate of {seq!r}")
        if name == "map":
            fn, seq = args
            out = self.new_list()

            def body(item):
                self.list_add(out, [self.apply(fn, [item], {}, e)])
            self.iterate(seq, body)
            return out
        if name in ("sorted", "list", "tuple", "reversed"):
            v = args[0] if args else self.new_list()
            if isinstance(v, Opaque):
                what = v.what.replace("self.", "")
                return self.new_list([Star(f"{what}[*]", [((), [Ident(f"{what}[*]")])])])
            if isinstance(v, InList):
                return self.new_list([self.star_of_inlist(v)])
            if isinstance(v, (list, tuple)):
                return self.new_list(list(v)) if name != "tuple" else tuple(v)
            raise Unsupported(f"{name} of {v!r}")
        if name == "deepcopy":
            return Copy(args[0], self.origin_function())
        if name == "bool":
            return self.truth(args[0], e) if args else False
        if name == "str":
            return args[0] if isinstance(args[0], (str, SymStr, Ident)) else Opaque("str(...)")
        if name in ("any", "set", "id"):
            return Opaque(f"{name}(...)")
        raise Unsupported(f"builtin {name}")

    def class_names(self, node):
        if isinstance(node, ast.Tuple):
            out = set()
            for el in node.elts:
                out |= self.class_names(el)
            return out
        if isinstance(node, ast.Attribute) and isinstance(node.value, ast.Name) and node.value.id == "ast":
            n = node.attr
            if n in ("expr", "stmt"):
                return concrete_kinds(n)
            return {n}
        if isinstance(node, ast.Name):
            return {node.id}
        raise Unsupported(f"class expression {norm(node)}")

    def strmethod(self, s, name, args, e):
        if isinstance(s, str) and all(isinstance(a, str) for a in args):
            return getattr(s, name)(*args)
        if name in ("startswith", "endswith"):
            return self.decide((name, repr(s), args[0]))
        if name == "split":
            first = SymStr([s, f".split({args[0]!r})[0]" if args else ".split()[0]"])
            first.nosep = args[0] if args else None      # the first component cannot contain the separator
            return self.new_list([first])
        if name in ("strip", "lower"):
            return s
        raise Unsupported(f"string method {name} on {s!r}")

    def listmethod(self, lst, name, args, e):
        if name == "append":
            self.list_add(lst, [args[0]])
            return None
        if name == "extend":
            self.list_add(lst, self.as_items(args[0]))
            return None
        if name == "__add__":
            return self.binop(ast.Add(), lst, args[0], e)
        raise Unsupported(f"list method {name}")


class Collector:
    def __init__(self, arg):
        self.arg = arg


def merge_alts(alts):
    """Merge alternatives with identical items (their distinguishing decisions are irrelevant to the output)."""
    out, seen = [], {}
    for dec, items in alts:
        k = repr(items)
        if k in seen:
            i = seen[k]
            common = tuple(d for d in out[i][0] if d in dec)
            out[i] = (common, out[i][1])
        else:
            seen[k] = len(out)
            out.append((tuple(dec), items))
    return out
