"""Queries over output templates (engine T)."""
import ast

from ..core import AnalysisError
from .templates import analyse_all
from .terms import (ASDL, Copy, GenericVisit, Gensym, Ident, In, InList, Lib, Node, Opaque, Raise, Rec, Star, SymStr, Unknown, Visit,
                    children, ordered_fields, walk)

_CACHE = {}


def templates(repo, tier="quick"):
    depth = 2 if tier == "quick" else 3
    key = (repo.root, repo.digest("transform"), depth)
    if key not in _CACHE:
        _CACHE[key] = analyse_all(repo, depth)
    return _CACHE[key]


# ------------------------------------------------------------------------------------------------ interact calls
class Interact:
    def __init__(self, node):
        self.node = node
        a = node.fields.get("args") or []
        self.args = a
        self.sym = a[0] if len(a) > 0 else None
        self.key = a[1] if len(a) > 1 else None
        self.ann = a[2] if len(a) > 2 else None
        self.value = a[3] if len(a) > 3 else None
        self.overridable = a[4] if len(a) > 4 else None

    @property
    def symname(self):
        """Meta name string, or the Ident/SymStr of a user variable."""
        s = self.sym
        if isinstance(s, Node) and s.cls == "Constant":
            return s.fields.get("value")
        return s

    def is_meta(self):
        n = self.symname
        return (isinstance(n, str) and n.startswith("#")) or (isinstance(n, SymStr) and n.parts and isinstance(n.parts[0], str) and n.parts[0].startswith("#"))

    def __repr__(self):
        return f"INTERACT({self.symname!r})"


def is_interact(n):
    if not (isinstance(n, Node) and n.cls == "Call"):
        return False
    f = n.fields.get("func")
    return (isinstance(f, Node) and f.cls == "Attribute" and f.fields.get("attr") == "interact"
            and is_lib_name(f.fields.get("value"), "frame"))


def is_lib_name(n, role=None):
    return isinstance(n, Node) and n.cls == "Name" and isinstance(n.fields.get("id"), Lib) and (role is None or n.fields["id"].role == role)


def interacts(t):
    return [Interact(x) for x in walk(t) if is_interact(x)]


def const(n, default=None):
    return n.fields.get("value") if isinstance(n, Node) and n.cls == "Constant" else default


# ------------------------------------------------------------------------------------------------ slots
def slot_path(t):
    if isinstance(t, (In, InList)):
        return t.path
    return None


def count_slot(t, pred):
    """Number of evaluations of input slots satisfying pred along one execution of the template:
    sums over sequences, max over the alternatives of a Star."""
    if isinstance(t, (In, InList)):
        return 1 if pred(t) else 0
    if isinstance(t, Star):
        best = 0
        for dec, items in t.alts:
            best = max(best, sum(count_slot(x, pred) for x in items))
        return best
    if isinstance(t, GenericVisit):
        return count_slot(t.x, pred)
    if isinstance(t, Rec):
        return 0          # depth-bounded summary of a recursive call: judged at the analysed depth
    return sum(count_slot(c, pred) for c in children(t))


def occurrences(t, pred, wrappers=()):
    """[(slot term, wrappers)] for every occurrence of an input slot satisfying pred; wrappers = enclosing Visit/Copy/GenericVisit."""
    out = []
    if isinstance(t, (In, InList)):
        if pred(t):
            out.append((t, wrappers))
        return out
    if isinstance(t, (Visit, Copy, GenericVisit)):
        return occurrences(t.x, pred, wrappers + (type(t).__name__,))
    for c in children(t):
        out += occurrences(c, pred, wrappers)
    return out


def base_path(path):
    """'node.targets[0].elts[*].value' -> top-level field 'targets'"""
    rest = path[len("node."):] if path.startswith("node.") else path
    f = rest.split(".")[0]
    return f.split("[")[0]


def linear_slots(t):
    """Input slots in evaluation order (language-reference order of the synthesised node classes)."""
    out = []
    if isinstance(t, (In, InList)):
        return [t.path]
    if isinstance(t, GenericVisit):
        return [f"<generic:{slot_path(t.x) or '?'}>"]
    if isinstance(t, (Copy, Rec)):
        return []         # a deep copy is reported by the duplicate rule, not as an ordering defect
    for c in children(t):
        out += linear_slots(c)
    return out


def possible_kinds(slot, decisions):
    """Kinds still possible for an input slot given the decisions of the path / alternative it occurs in."""
    poss = set(slot.kinds) if isinstance(slot, In) else set()
    pre = f"kind|{slot.path}|"
    for k, v in decisions:
        if k.startswith(pre):
            ks = set(k[len(pre):].split(","))
            poss = (poss & ks) if v else (poss - ks)
    return poss


def with_decisions(t, decisions=()):
    """Yield (term, accumulated decisions) for every term, descending into Star alternatives."""
    yield t, decisions
    if isinstance(t, Star):
        for dec, items in t.alts:
            for it in items:
                yield from with_decisions(it, tuple(decisions) + tuple(dec))
        return
    for c in children(t):
        yield from with_decisions(c, decisions)


def stmts_of(body):
    """Flatten a statement list: (stmt, alt decisions, inside_star)"""
    out = []
    for it in body if isinstance(body, (list, tuple)) else [body]:
        if isinstance(it, Star):
            for dec, items in it.alts:
                for x, d2, _ in stmts_of(items):
                    out.append((x, tuple(dec) + tuple(d2), True))
        else:
            out.append((it, (), False))
    return out


def show(t, n=400):
    s = repr(t)
    return s if len(s) <= n else s[: n - 3] + "..."
