"""Driver of engine T: output templates of every visit_* handler of the transformer class."""
import ast

from ..core import AnalysisError
from .interp import Interp, LibTable, PathRaise, SelfObj, Unsupported, merge_alts
from .terms import ASDL, In, Node, Opaque, Raise, Star, Term, walk


class Path:
    def __init__(self, handler, decisions, template, notes):
        self.handler, self.decisions, self.template, self.notes = handler, decisions, template, notes

    def dec(self, prefix):
        return {k: v for k, v in self.decisions if k.startswith(prefix)}

    def __repr__(self):
        return f"<{self.handler} {dict(self.decisions)} -> {self.template!r}>"


def transformer_class(tree):
    for n in tree.body:
        if isinstance(n, ast.ClassDef) and any(isinstance(b, ast.Name) and b.id == "NodeTransformer" for b in n.bases):
            return n.name
    raise AnalysisError("anchor vanished: no NodeTransformer subclass in transform.py")


def new_self(it):
    s = SelfObj()
    s.attrs.update(lib=LibTable(), external=Opaque("self.external"), free=Opaque("self.free"), used=Opaque("self.used"),
                   assigned=Opaque("self.assigned"), annotated={}, linenos={}, evalcache={}, defaults={}, vardoc={},
                   provenance={}, globals=Opaque("self.globals"), filename=Opaque("self.filename"),
                   to_instrument=Opaque("self.to_instrument"))
    it.selfobj = s
    return s


def analyse_handler(tree, cls, name, node_kind, max_depth=2, kwargs=None):
    it = Interp(tree, cls, max_depth)
    out = []

    def thunk():
        it.notes = []
        s = new_self(it)
        node = In("node", node_kind, kinds={node_kind})
        clo = it.method(name, s)
        res = it.call_closure(clo, [node], dict(kwargs or {}), 0)
        return res, list(it.notes)
    for dec, res in it.enumerate_paths(None, thunk):
        if isinstance(res, Raise):
            out.append(Path(name, dec, res, []))
        else:
            out.append(Path(name, dec, res[0], res[1]))
    return out, it.stats


def analyse_all(repo, max_depth=2):
    """-> (class name, {handler: [Path]}, stats)"""
    tree = repo.module("transform").tree
    cls = transformer_class(tree)
    cdef = next(n for n in tree.body if isinstance(n, ast.ClassDef) and n.name == cls)
    handlers = {}
    stats = {"runs": 0, "paths": 0, "local_alts": 0, "handlers": 0}
    for m in cdef.body:
        if isinstance(m, ast.FunctionDef) and m.name.startswith("visit_") and m.name != "visit_body":
            kind = m.name[len("visit_"):]
            if kind not in ASDL:
                continue
            kw = {"root": True} if kind == "FunctionDef" else None
            paths, st = analyse_handler(tree, cls, m.name, kind, max_depth, kw)
            handlers[m.name] = paths
            stats["handlers"] += 1
            stats["paths"] += len(paths)
            for k in ("runs", "local_alts"):
                stats[k] += st[k]
            if kind == "FunctionDef":
                nested, st2 = analyse_handler(tree, cls, m.name, kind, max_depth, None)
                handlers[m.name + "[nested]"] = nested
                stats["paths"] += len(nested)
    return cls, handlers, stats
