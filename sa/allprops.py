"""Development aid (used by selftest/run.py, never registered in MANIFEST): run the rule modules of all properties in ONE
process on one tree, sharing the parsed repository, the call graph and the engine-T templates.  Prints, per property,
`== <pid> rc=<0|1|2>` followed by the keys of unlisted failing obligations (or the analysis error).  Same rules, same
known-findings handling as ./check; no evidence is written."""
import contextlib
import importlib
import io
import os
import sys
import traceback


def main(argv):
    root = argv[0]
    props = argv[1].split(",") if len(argv) > 1 else None
    os.environ["VERIF_REPO"] = root
    os.environ["VERIF_NO_EVIDENCE"] = "1"
    os.environ.setdefault("VERIF_OUT", root)
    from .core import AnalysisError, Repo
    from .report import Check
    here = os.path.dirname(os.path.abspath(__file__))
    pids = props or sorted(f[:-3].upper() for f in os.listdir(os.path.join(here, "rules")) if f.startswith("c") and f[1:3].isdigit() and f.endswith(".py"))
    try:
        repo = Repo(root)
    except AnalysisError as e:
        for pid in pids:
            print(f"== {pid} rc=2\nANALYSIS-ERROR property={pid} {e}")
        return 0
    for pid in pids:
        buf = io.StringIO()
        rc = 0
        try:
            mod = importlib.import_module(f"sa.rules.{pid.lower()}")
            chk = Check(pid, "quick")
            with contextlib.redirect_stdout(buf):
                mod.run(repo, chk)
                rc = chk.finish()
        except AnalysisError as e:
            rc = 2
            buf.write(f"ANALYSIS-ERROR property={pid} {e}\n")
        except Exception:
            rc = 2
            buf.write(f"ANALYSIS-ERROR property={pid} internal error in the analyser: {traceback.format_exc(limit=3)}\n")
        if rc == 0 and os.environ.get("VERIF_STRICT_INVENTORY") and getattr(chk, "vanished", None):
            rc = 2
            buf.write(f"ANALYSIS-ERROR property={pid} {len(chk.vanished)} obligation(s) of the pinned tree no longer produced: {chk.vanished[:3]}\n")
        if os.environ.get("VERIF_DUMP_KEYS"):
            import json
            with open(os.environ["VERIF_DUMP_KEYS"], "a") as fh:
                try:
                    fh.write(json.dumps({"pid": pid, "rc": rc, "keys": sorted({o.key for o in chk.obligations})}) + "\n")
                except Exception:
                    pass
        print(f"== {pid} rc={rc}")
        out = buf.getvalue()
        if rc:
            print(out, end="")
    return 0


if __name__ == "__main__":
    sys.exit(main(sys.argv[1:]))
