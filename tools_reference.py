#!/venv/bin/python
"""Regenerate sa/data/reference_shape.json (function inventory and local-name roles) from the reference tree.

Run by hand when the reference tree moves (after a `fix:` commit); never run by a check.  The file only steers the
normal form (which helpers count as 'new' and which names the locals are given); it accepts or rejects nothing.
usage: tools_reference.py [repo root]
"""
import json, os, subprocess, sys
sys.path.insert(0, os.path.dirname(os.path.abspath(__file__)))
os.environ["VERIF_NO_REFERENCE"] = "1"
from sa import normal

root = sys.argv[1] if len(sys.argv) > 1 else "/repo"
ref = normal.build_reference(root)
try:
    ref["commit"] = subprocess.run(["git", "-C", root, "rev-parse", "HEAD"], capture_output=True, text=True).stdout.strip()
except Exception:
    pass
with open(normal.DATA, "w") as f:
    json.dump(ref, f, indent=0, sort_keys=True)
print(f"{sum(len(v) for v in ref['inventory'].values())} functions, {sum(len(v) for v in ref['roles'].values())} local roles -> {normal.DATA}")
