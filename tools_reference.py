#!/venv/bin/python
"""Regenerate sa/data/reference_shape.json (function inventory and local-name roles) from the reference tree.

Run by hand when the reference tree moves (after a `fix:` commit); never run by a check.  The file only steers the
normal form (which helpers count as 'new' and which names the locals are given); it accepts or rejects nothing.
usage: tools_reference.py [repo root]
"""
import json, os, subprocess, sys
sys.path.insert(0, os.path.dirname(os.path.abspath(__file__)))
os.environ["VERIF_NO_REFERENCE"] = "1"
from sa import normal

root = sys.argv[1] if len(sys.argv) > 1 else "/repo"
ref = normal.build_reference(root)
try:
    ref["commit"] = subprocess.run(["git", "-C", root, "rev-parse", "HEAD"], capture_output=True, text=True).stdout.strip()
except Exception:
    pass
with open(normal.DATA, "w") as f:
    json.dump(ref, f, indent=0, sort_keys=True)
print(f"{sum(len(v) for v in ref['inventory'].values())} functions, {sum(len(v) for v in ref['roles'].values())} local roles -> {normal.DATA}")

# obligation inventory: the keys every quick check produces on this tree (report.Check.finish refuses a verdict when one goes missing)
import tempfile
fd, path = tempfile.mkstemp(suffix=".jsonl"); os.close(fd)
env = dict(os.environ, VERIF_DUMP_KEYS=path, VERIF_NO_EVIDENCE="1", VERIF_KEY_INVENTORY="0", VERIF_OUT=tempfile.gettempdir())
env.pop("VERIF_NO_REFERENCE", None)
here = os.path.dirname(os.path.abspath(__file__))
subprocess.run([sys.executable, "-B", "-m", "sa.allprops", root], cwd=here, env=env, capture_output=True, text=True)
inv = {}
for line in open(path):
    d = json.loads(line)
    if d["rc"] == 2:
        print("WARNING: analysis error while collecting the inventory of", d["pid"])
    inv[d["pid"]] = d["keys"]
os.unlink(path)
with open(os.path.join(here, "sa", "data", "obligation_keys.json"), "w") as f:
    json.dump(inv, f, indent=0, sort_keys=True)
print(f"{sum(len(v) for v in inv.values())} obligation keys in {len(inv)} properties -> sa/data/obligation_keys.json")
