#!/usr/bin/env python3
"""Maintain known_findings.json by hand-driven commands (never called by a check).
  tools_kf.py add <props,comma> <rule> <key> <witness> <what fails>
  tools_kf.py fixed <props,comma> <commit> <key> <what failed>
"""
import json, sys, os
P = os.path.join(os.path.dirname(os.path.abspath(__file__)), "known_findings.json")
d = json.load(open(P))
cmd = sys.argv[1]
if cmd == "add":
    props, rule, key, witness, what = sys.argv[2:7]
    d["findings"] = [f for f in d["findings"] if f["key"] != key]
    d["findings"].append({"properties": props.split(","), "rule": rule, "key": key, "what_fails": what, "witness": witness})
elif cmd == "fixed":
    props, commit, key, what = sys.argv[2:6]
    d["findings"] = [f for f in d["findings"] if f["key"] != key]
    d["fixed"].append({"properties": props.split(","), "line": f"fixed: property={props.split(',')[0]} {commit} {what}", "key": key, "commit": commit})
json.dump(d, open(P, "w"), indent=1)
print(len(d["findings"]), "findings,", len(d["fixed"]), "fixed")
