# Forced schedule: T1 deactivates probe on f>y and is paused inside _apply after computing the variant
# (get()) but before installing it; T2 activates a probe on f>z and completes; T1 resumes and installs
# the stale variant -> T2's probe is active but f's code lacks z instrumentation.
import threading
from ptera import probing
from ptera.transform import StackedTransforms
def f(x):
    y = x + 1
    z = y + 1
    return z
pause = threading.Event(); resumed = threading.Event(); in_get = threading.Event()
orig_get = StackedTransforms.get
def slow_get(self):
    r = orig_get(self)
    if threading.current_thread().name == "T1" and getattr(slow_get, "armed", False):
        slow_get.armed = False
        in_get.set(); pause.wait(1.0)   # a long preemption; bounded so that a lock-based repair does not deadlock the demo
    return r
StackedTransforms.get = slow_get
out = {}
def t1():
    p = probing("f > y"); p.__enter__()
    slow_get.armed = True
    p.__exit__(None, None, None)     # pop -> _apply -> get() pauses
def t2():
    in_get.wait()
    with probing("f > z").values() as v:
        pause.set(); T1.join()
        f(1)
    out["z"] = v
T1 = threading.Thread(target=t1, name="T1"); T2 = threading.Thread(target=t2, name="T2")
T1.start(); T2.start(); T2.join()
print("T2 events for f>z (expect [{'z': 3}]):", out["z"])
print("count after all:", f.__ptera_stack__.instrument_count)
