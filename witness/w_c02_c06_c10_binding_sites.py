from ptera import probing, tooled, ABSENT, select
import contextlib
def t(label, thunk):
    try:
        print(label, "->", repr(thunk()))
    except BaseException as e:
        print(label, "RAISED", type(e).__name__, str(e)[:140])

# C06 implicit return, return-in-finally
def noret(x):
    y = x
def fin():
    try:
        return 1
    finally:
        return 2
with probing("noret() as r").values() as v: noret(1)
print("C06 implicit return events (expect [{'r': None}]):", v)
with probing("fin() as r").values() as v: print(fin())
print("C06 return-in-finally events (expect [{'r': 2}]):", v)

# C02 with target / import a.b / list target / class body / lambda walrus / comprehension
def withy():
    with contextlib.nullcontext(5) as w:
        pass
    return w
with probing("withy > w").values() as v: withy()
print("C02 with-target events (expect [{'w':5}]):", v)
def listy(x):
    [p, q] = x
    return p
with probing("listy > p").values() as v: listy([1,2])
print("C02 list-target events (expect [{'p':1}]):", v)
def impy():
    import os.path
    return os
with probing("impy > os").values() as v: impy()
print("C02 import a.b events (expect 1 event):", len(v))
def classy():
    x = 1
    class K:
        x = 2
    return x
try:
    with probing("classy > x").values() as v: print(classy())
except BaseException as e: print("classy RAISED", type(e).__name__, e); v=None
print("C02 class-body spurious (expect [{'x':1}]):", v)
def compy(xs):
    ys = [j for j in xs]
    return ys
t("C10 comprehension var selectable (expect SelectorError)", lambda: probing("compy > j").__enter__())
def lamy():
    h = lambda q: q
    return h(1)
t("C10 lambda param selectable (expect SelectorError)", lambda: probing("lamy > q").__enter__())
def defy():
    def inner(): return 1
    class C: pass
    return inner()
t("C10 nested def name (expect ok)", lambda: probing("defy > inner").__enter__() and "ok")
t("C10 nested class name (expect ok)", lambda: probing("defy > C").__enter__() and "ok")
def nested_local():
    def inner():
        zz = 1
        return zz
    return inner()
t("C10 inner local selectable in outer (expect SelectorError)", lambda: probing("nested_local > zz").__enter__() and "ok")
def starfor(xs):
    for a, *b in xs:
        pass
    return a
t("C01 for with starred", lambda: probing("starfor > a").__enter__() and "ok")
def forattr(o, xs):
    for o.v in xs: pass
    return o
t("C01 for attr target", lambda: probing("forattr > o").__enter__() and "ok")
def matchy(v):
    match v:
        case [m, *rest]:
            return m
t("C10 match capture", lambda: probing("matchy > m").__enter__() and "ok")
