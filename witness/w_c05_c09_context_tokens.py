from ptera import probing, global_probe, tooled, ABSENT
from ptera.overlay import HandlerCollection
def t(label, thunk):
    try:
        print(label, "->", repr(thunk()))
    except BaseException as e:
        print(label, "RAISED", type(e).__name__, str(e)[:110])

# C05: failed activation leaks instrumentation
def f5(x):
    a = x + 1
    return a
orig = f5.__code__
t("bad activation", lambda: probing("f5 > nonexistent").__enter__())
print("C05 leak: code restored?", f5.__code__ is orig, "count", f5.__ptera_stack__.instrument_count, "global_probes", len(__import__("ptera.probe").probe.global_probes))

# C05: non-LIFO global probes
def g5(x):
    b = x * 2
    return b
p1 = global_probe("f5 > a"); r1 = p1["a"].accum()
p2 = global_probe("g5 > b"); r2 = p2["b"].accum()
f5(1); g5(1)
p1.deactivate()
f5(2); g5(2)
print("after p1.deactivate: r1", r1, "r2 (expect [2,4])", r2)
p2.deactivate()
cur = HandlerCollection.current.get()
print("after both deactivated: current handlers =", None if cur is None else [str(s) for s,_ in cur.handler_pairs])

HandlerCollection.current.set(None)
# C09: suspended generator leaks context
def gen():
    yield 1
    yield 2
def g(v):
    a = v
    return a
with probing("gen > g > a").values() as vals:
    it = gen()
    next(it)
    g(10)     # called by driver, not by gen
    next(it)
print("C09 events (expect []):", vals)
with probing("g > a").values() as vals2:
    it = gen()
with probing("gen > #enter").values():
    it = gen(); next(it)
cur = HandlerCollection.current.get()
print("C09 after overlay ended with suspended gen: current =", None if cur is None else [str(s) for s,_ in cur.handler_pairs])
t("drop gen", lambda: it.close())
cur = HandlerCollection.current.get()
print("   after close: current =", None if cur is None else [str(s) for s,_ in cur.handler_pairs])
from ptera import probing
def star(x):
    a, *b = x
    return a
try:
    probing("star > a").__enter__()
except BaseException as e:
    print("activation RAISED", type(e).__name__)
st = star.__ptera_stack__
print("R05.1c: instrument_count after failed push (expect 0):", st.instrument_count, dict(st.captures) and "captures non-empty")
try:
    probing("star > x").__enter__()
except BaseException as e:
    print("second, unrelated probe on same function RAISED", type(e).__name__, "count now", st.instrument_count)
