"""C16 witness (known finding): ptera's internal ABSENT marker is handed to user code as the value of a declared-only variable.
interact() offers the tentative value to the intercept handlers before its `is ABSENT` guard (that is how an overlay supplies such a
variable); BaseAccumulator.intercept files it in the capture the handler receives.  So (1) the stream of an overridable probe on `inner(a) > w`
delivers the event {'a': 1, 'w': ABSENT}; (2) a rewriter function of Overlay.rewriting is called with w=ABSENT.
Run: PYTHONPATH=/repo /venv/bin/python witness/w_c16_marker_offered_to_handlers.py   (exit 1 = the marker was handed out)"""
import sys
from ptera import ABSENT, probing, tooled
from ptera.overlay import Overlay


def inner(a):
    w: int
    return a + w


events = []
with probing("inner(a) > w", overridable=True) as p:
    p.subscribe(events.append)
    p["a"].override(lambda a: 10)
    inner(1)
leak1 = any(v is ABSENT for e in events for v in e.values())
print("overridable probe events:", events)


@tooled
def inner2(a):
    w: int
    return a + w


seen = []


def rw(args):
    seen.append(dict(args))
    return 5


with Overlay.rewriting({"inner2(a) > w": rw}):
    inner2(1)
leak2 = any(v is ABSENT for d in seen for v in d.values())
print("rewriter was called with:", seen)
sys.exit(1 if leak1 or leak2 else 0)
