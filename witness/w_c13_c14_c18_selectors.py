from ptera import probing, tooled, ABSENT, select, Overlay
from ptera.selector import parse
def t(label, thunk):
    try:
        print(label, "->", repr(thunk()))
    except BaseException as e:
        print(label, "RAISED", type(e).__name__, str(e)[:140])

# C02/C04 attribute store under selective instrumentation
class K:
    def moo(self, x):
        self.x = x
        return self.x
k = K()
with probing("K.moo > self.x").values() as v: k.moo(3)
print("C02 attr-store probing (expect 1 event):", v)

# C13 receivers
class Eq:
    def __init__(s, v): s.v = v
    def __eq__(s, o): return isinstance(o, Eq) and s.v == o.v
    def __hash__(s): return hash(s.v)
    def meth(s):
        w = s.v
        return w
a, b = Eq(1), Eq(1)
with probing("a.meth > w").values() as v:
    a.meth(); b.meth()
print("C13 equal-but-distinct receivers (expect 1 event):", len(v))
class NoHash:
    def __eq__(s, o): return s is o
    def meth(s):
        w = 1
        return w
n = NoHash()
t("C13 unhashable receiver", lambda: probing("n.meth > w").__enter__() and "ok")
class Sub(K): pass
s = Sub()
with probing("s.moo > x").values() as v:
    s.moo(1); k.moo(2)
print("C13 inherited method on instance (expect 1 event):", v)

# C14 resolve while active
import sys; sys.path.insert(0, "/repo")
from tests.milk import gouda, cheese
from ptera import refstring
ref = refstring(gouda)
print(ref)
with probing(ref + " > a").values() as v1:
    t("C14 resolve during probe", lambda: select(ref + " > b").element.name is gouda)
    try:
        with probing(ref + " > b").values() as v2:
            gouda(2)
        print("nested by-ref events", v1, v2)
    except BaseException as e:
        print("C14 nested by-ref RAISED", type(e).__name__, str(e)[:100])
t("C14 resolve after", lambda: select(ref + " > b").element.name is gouda)

# C18 internal errors
for s in ["", ")", "(", "a >", "> a", "!a(b)", "$(a > b)", "a as (b, c)", "(a, b):c", "a > b, c", "a(b", "a)", "a b", "!!", "a > !", "x=", "=3", "a:'x'", "a(b)(c)", "a[b]", "a > (b, c)", "!!a(b)", "a as b as c", "f(x=g(y=))", ",", "a,", "$", "*", "a > $", "a::b", "'q'", "a > 'q'"]:
    try:
        r = parse(s); out = "ok " + str(r)[:60]
    except (SyntaxError,) as e: out = "SyntaxError"
    except BaseException as e: out = "INTERNAL " + type(e).__name__ + " " + str(e)[:60]
    print(f"  parse({s!r}): {out}")
