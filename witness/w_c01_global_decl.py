"""C01 / R01.6: `global g` (only read) in the body: the prologue assigns g before the declaration -> SyntaxError at activation.
Run: cd /repo && /venv/bin/python /verif/witness/w_c01_global_decl.py"""
from ptera import probing
counter = 10
def f(x):
    global counter
    y = x + counter
    return y
print("plain:", f(1))
try:
    with probing("f > y").values() as v:
        print("probed:", f(1))
    print(v)
except SyntaxError as e:
    print("DEFECT REPRODUCED: activation fails with SyntaxError:", e.msg)
