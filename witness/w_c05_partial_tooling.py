"""C05 / R05.1 (d): a selector whose second level cannot be tooled leaves the first level instrumented.

Run: /venv/bin/python witness/w_c05_partial_tooling.py
"""
from ptera import probing

def f(x):
    y = x + 1
    return y

class NotAFunction:          # has __call__ via type but no __code__
    pass

g = NotAFunction()
orig = f.__code__
try:
    with probing("f > g > z"):
        pass
except TypeError as e:
    print("activation refused:", e)
print("f back on its original code:", f.__code__ is orig)
print("instrument_count left over:", f.__ptera_stack__.instrument_count)
assert f.__code__ is not orig or f.__ptera_stack__.instrument_count != 0, "defect not reproduced"
print("DEFECT REPRODUCED: refused activation left f instrumented")
