from ptera import probing, tooled
def t(label, thunk):
    try:
        print(label, "->", repr(thunk()))
    except BaseException as e:
        print(label, "RAISED", type(e).__name__, str(e)[:140])
def make():
    n = 0
    def inc():
        nonlocal n
        n += 1
        return n
    def get():
        return n
    return inc, get
inc, get = make()
t("C01 nonlocal function under probing (expect 1)", lambda: probing("inc > n").__enter__() and inc())
inc2, get2 = make()
t("C01 nonlocal function under @tooled (expect 1)", lambda: tooled(inc2)())
def classy():
    x = 1
    class K:
        x = 2
    return x
def run_classy():
    with probing("classy > x").values() as v:
        return classy(), v
t("C01 class statement inside probed function (expect (1, [{'x': 1}]))", run_classy)
def outer():
    @tooled
    def rec(n):
        return 0 if n == 0 else rec(n - 1)
    return rec
t("C01 @tooled on self-referencing closure (expect 0)", lambda: outer()(2))
def matchy(v):
    match v:
        case [m, *rest]:
            return m
def run_matchy():
    with probing("matchy > m").values() as vals:
        return matchy([1, 2]), vals
t("C01/C10 match-capture variable (expect (1, [{'m': 1}]))", run_matchy)
