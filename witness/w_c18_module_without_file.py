# witness (C18, fixed by the commit listed in known_findings.json): '/sys/exit > x' raised AttributeError (built-in modules have no
# __file__) and a reference into a namespace package raised AssertionError, instead of ptera's refusal of an unresolvable reference
import os, sys, tempfile
from ptera import probing
from ptera.selector import SelectorError
from ptera.utils import CodeNotFoundError
d = tempfile.mkdtemp()
os.mkdir(os.path.join(d, "w_c18_nspkg"))          # a directory without __init__.py: namespace package, __file__ is None
sys.path.insert(0, d)
bad = []
for s in ["/sys/exit > x", "/builtins/len > x", "/sys/ > x", "/w_c18_nspkg/f > x"]:
    try:
        with probing(s):
            pass
        bad.append((s, "accepted"))
    except (SelectorError, SyntaxError, CodeNotFoundError):
        pass
    except BaseException as e:
        bad.append((s, type(e).__name__))
os.rmdir(os.path.join(d, "w_c18_nspkg")); os.rmdir(d)
print("FAIL " + str(bad) if bad else "PASS")
raise SystemExit(1 if bad else 0)
