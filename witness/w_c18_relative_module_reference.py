# witness (C18, fixed by the commit listed in known_findings.json): '/.x/y > z' raised importlib's TypeError instead of a selector error
from ptera import probing
from ptera.selector import SelectorError
from ptera.utils import CodeNotFoundError
bad = []
for s in [":/.", "/. > x", "/.x/y > z", "/../a > b"]:
    try:
        with probing(s):
            pass
        bad.append((s, "accepted"))
    except (SelectorError, SyntaxError, CodeNotFoundError):      # CodeNotFoundError: ptera's refusal of an unresolvable reference
        pass
    except BaseException as e:
        bad.append((s, type(e).__name__))
print("FAIL " + str(bad) if bad else "PASS")
raise SystemExit(1 if bad else 0)
