import traceback
from ptera import probing, tooled, ABSENT

def t(label, thunk):
    try:
        print(label, "->", repr(thunk()))
    except BaseException as e:
        print(label, "RAISED", type(e).__name__, e)

# 1. tuple unpack from generator / dict / wrong length / starred
def unpack_gen():
    a, b = (i for i in range(2))
    return a + b
def unpack_len():
    a, b = [1, 2, 3]
    return a + b
def unpack_star(x):
    a, *b = x
    return a, b
def unpack_dict():
    a, b = {"k1": 1, "k2": 2}
    return a, b
for fn in (unpack_gen, unpack_len, unpack_dict):
    t("orig " + fn.__name__, fn)
    with probing(f"{fn.__name__} > a").values() as v:
        t("probed " + fn.__name__, fn)
t("orig star", lambda: unpack_star([1,2,3]))
try:
    with probing("unpack_star > a").values() as v:
        t("probed star", lambda: unpack_star([1,2,3]))
except BaseException as e:
    print("probed star activation RAISED", type(e).__name__, e)

# 2. side-effecting subscript index
log = []
def idx():
    log.append("idx")
    return 0
def sub(x):
    x[idx()] = 5
    return x
log.clear(); t("orig sub", lambda: sub([0])); print(log)
log.clear()
with probing("sub > x").values() as v:
    t("probed sub", lambda: sub([0]))
print(log, v)
