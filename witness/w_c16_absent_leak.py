from ptera import probing, tooled, ABSENT
def t(label, thunk):
    try:
        print(label, "->", repr(thunk()))
    except BaseException as e:
        print(label, "RAISED", type(e).__name__, e)

def ext(flag):
    if flag:
        return undefined_thing
    return 1
t("orig ext(False)", lambda: ext(False))
t("orig ext(True)", lambda: ext(True))
with probing("ext > flag").values():
    t("probed[flag] ext(False)", lambda: ext(False))
    t("probed[flag] ext(True)", lambda: ext(True))
with probing("ext > $x").values():
    t("probed[all] ext(False)", lambda: ext(False))

def decl(flag):
    q = 1
    z: int
    if flag:
        return z
    return q
t("orig decl(True)", lambda: decl(True))
with probing("decl > q").values():
    t("probed[q] decl(True)", lambda: decl(True))
    t("probed[q] decl(False)", lambda: decl(False))
with probing("decl > z").values():
    t("probed[z] decl(False)", lambda: decl(False))

