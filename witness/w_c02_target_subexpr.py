"""C02 / R02.3: a walrus nested in a subscript *target* is accepted by the collector but never reported.
Run: cd /repo && /venv/bin/python /verif/witness/w_c02_target_subexpr.py"""
from ptera import probing
def f(d):
    d[(k := "a")] = 1
    x: int
    return k
def g(d):
    d[(k2 := "a")]: int = 1
    return k2
with probing("f > k").values() as v:
    try: f({})
    except BaseException as e: print("f raised", type(e).__name__)
print("events for k bound in `d[(k := 'a')] = 1` (expect [{'k': 'a'}]):", v)
with probing("g > k2").values() as v:
    g({})
print("events for k2 bound in `d[(k2 := 'a')]: int = 1` (expect [{'k2': 'a'}]):", v)
