# witness (C14): after a probe on a METHOD (or any non-module-level function), the absolute reference of a module-level
# function with the same name resolves to the method.  transform() compiles the instrumented source as a top-level `def`
# of a synthetic module that carries the original file name; codefind's audit hook files that code under (file, name).
import os, sys
sys.path.insert(0, os.path.dirname(os.path.abspath(__file__)))
import w_c14_mod as m
from ptera import probing

def events(sel, call):
    with probing(sel) as prb:
        out = prb.accum()
        call()
    return out

assert events("/w_c14_mod/plain > y", lambda: m.plain(1)) == [{"y": 2}]
assert events("/w_c14_mod/K/plain > z", lambda: m.K().plain(3)) == [{"z": 6}]
try:
    got = events("/w_c14_mod/plain > y", lambda: m.plain(1))
    assert got == [{"y": 2}], got
    print("PASS")
except Exception as e:
    print("FAIL: /w_c14_mod/plain no longer designates the module-level function:", type(e).__name__, str(e)[:160])
    raise SystemExit(1)
