# witness (C15): a selector whose value condition is a call with a KEYWORD argument is not interned -- the same text parsed
# twice gives two different objects, and equivalent spellings do not compile to the same selector.
# Cause: VKeyword.__eq__ tests isinstance(other, VCall), so no two VKeyword objects are ever equal.
from ptera.selector import parse
bad = []
a, b = parse("f(x=g(a=1)) > y"), parse("f(x=g(a=1)) > y")
if a is not b:
    bad.append("the same text parsed twice is not the same object")
e, f_ = parse("f(x~every(modulo=3)) > y"), parse("f(x~every(modulo=3), !y)")
if e is not f_:
    bad.append("`f(x~every(modulo=3)) > y` and `f(x~every(modulo=3), !y)` compile to different selectors")
c, d = parse("f(x=g(1)) > y"), parse("f(x=g(1)) > y")
assert c is d        # positional value arguments were always fine
print("FAIL: " + "; ".join(bad) if bad else "PASS")
raise SystemExit(1 if bad else 0)
