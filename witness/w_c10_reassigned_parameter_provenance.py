# witness (C10, fixed by the commit listed in known_findings.json): a parameter that the body rebinds was recorded with provenance 'body'
# (Python's symbol table: is_parameter) -- the table consulted by selector verification disagreed with Python's scoping
import symtable, inspect, textwrap
from ptera import tooled


def f(x, y=2, *rest, z=0, **kw):
    x = x + 1
    for y in range(2):
        pass
    try:
        pass
    except Exception as z:
        pass
    import os as rest
    kw = {}
    w = 1
    return x, w


g = tooled(f)
st = symtable.symtable(textwrap.dedent(inspect.getsource(f)), "w", "exec").get_children()[0]
bad = []
for name, row in g.__ptera_info__.items():
    if name.startswith("#"):
        continue
    try:
        sym = st.lookup(name)
    except KeyError:
        continue
    want = "argument" if sym.is_parameter() else "body" if sym.is_local() else "closure" if sym.is_free() else "external"
    if row["provenance"] != want:
        bad.append((name, row["provenance"], want))
print("FAIL " + str(bad) if bad else "PASS")
raise SystemExit(1 if bad else 0)
