"""C13 / R13.4: the receiver constraint of `obj.meth > v` is only enforced once the receiver parameter has been reported.
Interactions that precede the parameters in the generated prologue (#enter, globals read by the method, closure variables)
fire for every instance and carry no receiver.   Run: cd /repo && /venv/bin/python /verif/witness/w_c13_receiver_before_parameter.py"""
from ptera import probing
G = 5
class K:
    def meth(self, x):
        y = x + G
        return y
a, b = K(), K()
with probing("a.meth > G").values() as v1:
    a.meth(1); b.meth(2)
print("a.meth > G       (expect 1 event, for a only):", v1)
with probing("a.meth > #enter").values() as v2:
    a.meth(1); b.meth(2)
print("a.meth > #enter  (expect 1 event, for a only):", v2)
with probing("a.meth > y").values() as v3:
    a.meth(1); b.meth(2)
print("a.meth > y       (control, 1 event with receiver):", [{k: (val if k != 'self' else 'a' if val is a else 'b') for k, val in e.items()} for e in v3])
assert len(v1) == 2 and len(v2) == 2, "defect not reproduced"
print("DEFECT REPRODUCED: events for the other instance, without the receiver")
