# witness: transform() leaves `<function name> = None` in the module globals when the name was not a global before
# (methods, nested functions): a method called `max` makes the builtin `max` unusable in its module afterwards.
from ptera import probing

class Box:
    def max(self, xs):          # a method whose name is also a builtin used by the module
        top = xs[0]
        for x in xs:
            if x > top:
                top = x
        return top

def biggest(xs):
    return max(xs)               # the builtin

print("before:", biggest([1, 3, 2]), "max" in globals())
with probing("Box.max > top") as prb:
    prb.display = None
    Box().max([1, 3, 2])
print("after: 'max' in globals():", "max" in globals(), "value:", globals().get("max", "<absent>"))
try:
    print("biggest:", biggest([1, 3, 2]))
    print("PASS")
except TypeError as e:
    print("FAIL: the module's use of the builtin is broken after probing:", e)
    raise SystemExit(1)
