"""C10 findings R10.1 / R10.3: collector vs Python scoping.   Run: cd /repo && /venv/bin/python /verif/witness/w_c10_scoping.py"""
import symtable, inspect, textwrap
from ptera import probing, tooled

def host(x):
    def inner(p):
        q = p + 1
        return q
    async def ainner():
        return 1
    class K:
        attr = 1
    lam = lambda lp: lp
    gen = list(gv for gv in range(2))
    y = inner(x)
    return y

def globber():
    global GG
    GG = 1
    return GG

def accepted(sel):
    try:
        with probing(sel).values() as v:
            host(1)
        return f"accepted, events={v}"
    except Exception as e:
        return f"refused ({type(e).__name__})"

st = symtable.symtable(textwrap.dedent(inspect.getsource(host)), "w", "exec").get_children()[0]
for name in ("inner", "ainner", "K"):
    print(f"R10.1 host > {name:7s}: python local={st.lookup(name).is_local()}  ptera: {accepted('host > ' + name)}")
for name in ("q", "p", "attr", "lp", "gv"):
    try:
        loc = st.lookup(name).is_local()
    except KeyError:
        loc = False
    print(f"R10.3 host > {name:7s}: python local={loc}  ptera: {accepted('host > ' + name)}")
info = tooled(globber).__ptera_info__
print("R10.3 globber: provenance of GG =", info["GG"]["provenance"], "(Python: global)")
