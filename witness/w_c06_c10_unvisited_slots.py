from ptera import probing
def t(label, thunk):
    try:
        print(label, "->", repr(thunk()))
    except BaseException as e:
        print(label, "RAISED", type(e).__name__, str(e)[:140])
def exb():
    try:
        1/0
    except ZeroDivisionError as e:
        only_here = 1
        r = only_here + 1
    return r
t("C10 local bound only in except body", lambda: probing("exb > only_here").__enter__() and "ok")
import ptera
def exb2():
    try:
        1/0
    except ZeroDivisionError as e:
        only_here = 1
        r = only_here + 1
    return r
p = ptera.tooled(exb2)
print({k: v["provenance"] for k, v in p.__ptera_info__.items() if not k.startswith("#")})
def gy():
    x = yield 1
    y: int = yield 2
    return (x, y)
with probing("gy > #yield").values() as v:
    g = gy(); next(g); g.send(10)
    try: g.send(20)
    except StopIteration as s: print("ret", s.value)
print("C06 yield events for `x = yield 1` (expect 2):", v)
def wal(a):
    b = (c := a + 1) + 1
    return b + c
with probing("wal > c").values() as v: wal(1)
print("C02 walrus nested in assign value (expect [{'c': 2}]):", v)
