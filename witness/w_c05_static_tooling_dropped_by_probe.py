"""C05 witness (fixed by the `fix:` commit recorded in known_findings.json): an overlay that is active on a statically tooled function stops receiving
events while a probe on another variable of the same function is active -- the probe's activation replaced the fully instrumented code by a variant that only
reports the probe's own variable.  Run: PYTHONPATH=/repo /venv/bin/python witness/w_c05_static_tooling_dropped_by_probe.py  (prints the events; on the repaired tree the
overlay sees y for all three calls)."""
from ptera import tooled, probing
from ptera.overlay import Overlay, BaseOverlay
from ptera.interpret import Immediate
from ptera.selector import select

@tooled
def f(a):
    x = a + 1
    y = x * 2
    return y

seen = []
ol = Overlay()
ol.tap("f > y", dest=seen)
with ol:
    f(1)
    with probing("f > x") as p:
        xs = p["x"].accum()
        f(2)
    f(3)
print("overlay saw", seen, "probe saw", xs)
print(f.__ptera_stack__.instrument_count if hasattr(f, "__ptera_stack__") else None)

import sys
sys.exit(0 if seen == [{"y": 4}, {"y": 6}, {"y": 8}] else 1)
