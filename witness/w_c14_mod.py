def plain(x):
    y = x + 1
    return y

class K:
    def plain(self, x):      # same name as the module-level function
        z = x * 2
        return z

def outer(n):
    def inner(k):
        w = k + n
        return w
    return inner(n) + inner(n + 1)
