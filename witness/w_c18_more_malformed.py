from ptera.selector import parse, select
from ptera import probing
for s in ["a as (b(c))", "$(a, b)", "!(a, b)", "!(a(b))", "!!(a(b))", "(a,b) as c", "(a, b) > c", "(a,b)(c)", "a > b > (c, d)", "a(b, (c, d))", "a((b, c))", "a(b=c=d)", "x=f(a=b=c)", "x~(a,b)", "x=(a=b)", "x=f((a,b)=c)", "a:(b,c)", "a:b(c, d=e)", "a:b:c", "a > #value", "a(#foo)"]:
    try:
        r = parse(s); out = "ok " + str(r)[:70]
    except (SyntaxError,) as e: out = "SyntaxError " + str(e)[:50]
    except BaseException as e: out = "INTERNAL " + type(e).__name__ + " " + str(e)[:60]
    print(f"  parse({s!r}): {out}")
def a(b): 
    c = b
    return c
for s in ["a > b, c", "", "a > (b, c)", "x:int", "a(!!b)", "a(!b, !!c, !!b)", "a > c:a", "a.b > c", "a > b=zz", "a(b=zz(1))", "a > b~3", "a() as", "/x > y", "//a/b.c > x", "@T > x", "a > $x:@T", "3 > x", "'q' > x", "a > 3", "a(b as 3)"]:
    try:
        r = select(s); out = "ok " + str(r)[:70]
        try:
            p = probing(s); p.__enter__(); p.__exit__(None,None,None); out += " | probing ok"
        except BaseException as e: out += " | probing " + type(e).__name__ + " " + str(e)[:50]
    except (SyntaxError,) as e: out = "SyntaxError"
    except BaseException as e: out = "select " + type(e).__name__ + " " + str(e)[:70]
    print(f"  select({s!r}): {out}")
